package main

// Conformance through Lua: the same explicit-state search, but every history
// is rendered to a Lua program (t[k]=v, rawset, rawget, next, pairs, #t) that
// runs on the real pipeline with a logging __index/__newindex metatable under
// a CPU limit.  The emitted trace is checked in lock step with reftable:
// a metamethod fires iff the reference says the raw key is absent; pairs
// loops that clear / assign existing fields satisfy the traversal contract; a
// run that is killed by the CPU limit is a non-terminating traversal.

import (
	"fmt"
	"math"
	"os"
	"strconv"
	"strings"
	"time"

	rt "github.com/arnodel/golua/runtime"

	"verif/engine/core"
	"verif/engine/host"
	"verif/engine/reftable"
)

type lkind uint8

const (
	lAssign lkind = iota // t[K]=V
	lRawset              // rawset(t,K,V)
	lGet                 // emit("g", t[K])
	lPCA                 // pairs: clear every key as it is visited
	lPAA                 // pairs: assign every key as it is visited (t[k]=3)
	lPRA                 // pairs: rawset every key as it is visited (rawset(t,k,3))
	lPC                  // pairs: clear the current key when it is K
	lPO                  // pairs: at the first iteration clear the existing key K
	lPR                  // pairs: at the first iteration rawset(t,K,3) if K exists
)

type lop struct {
	kind lkind
	key  int
	val  int
}

type luaConfig struct {
	name      string
	start     []sop
	startExpr string // optional table constructor spelling of the start state (must equal start)
	menu      []string
	depthQ    int
	depthT    int

	ops   []lop
	keys  []*AKey
	exprs []string // Lua expression per menu key
	args  []*AKey  // chunk arguments A1..An (role chosen keys)
	argOf map[string]int
	ready bool
	fns   map[int]rt.Value // precompiled pieces: -1 start, -2 dump, i operation i
}

func (c *luaConfig) buildOps() {
	for k := range c.menu {
		for _, v := range []int{1, 2, 0} {
			c.ops = append(c.ops, lop{lAssign, k, v})
		}
		c.ops = append(c.ops, lop{lRawset, k, 1}, lop{lRawset, k, 0}, lop{lGet, k, 0})
	}
	c.ops = append(c.ops, lop{lPCA, -1, 0}, lop{lPAA, -1, 0}, lop{lPRA, -1, 0})
	for k := range c.menu {
		c.ops = append(c.ops, lop{lPC, k, 0}, lop{lPO, k, 0}, lop{lPR, k, 0})
	}
}

// expr returns the Lua expression for a role (a literal, or a chunk argument).
func (c *luaConfig) expr(role string) string {
	u := uni()
	k := u.K(role)
	if k.Lua != "" {
		return k.Lua
	}
	if i, ok := c.argOf[role]; ok {
		return "A" + strconv.Itoa(i+1)
	}
	c.argOf[role] = len(c.args)
	c.args = append(c.args, k)
	return "A" + strconv.Itoa(len(c.args))
}

func (c *luaConfig) resolve() {
	if c.ready {
		return
	}
	c.argOf = map[string]int{}
	for _, s := range c.start {
		c.expr(s.role)
	}
	for _, r := range c.menu {
		c.keys = append(c.keys, uni().K(r))
		c.exprs = append(c.exprs, c.expr(r))
	}
	c.ready = true
}

func luaVal(v int) string {
	if v == 0 {
		return "nil"
	}
	return strconv.Itoa(v)
}

func (c *luaConfig) stmt(o lop, forKey bool) string {
	K := ""
	if o.key >= 0 {
		if forKey {
			K = c.menu[o.key]
		} else {
			K = c.exprs[o.key]
		}
	}
	if forKey {
		// short, readable spelling for violation keys
		switch o.kind {
		case lPCA:
			return "pairs{t[k]=nil}"
		case lPAA:
			return "pairs{t[k]=3}"
		case lPRA:
			return "pairs{rawset(t,k,3)}"
		case lPC:
			return "pairs{if k==" + K + " then t[k]=nil}"
		case lPO:
			return "pairs{first: t[" + K + "]=nil}"
		case lPR:
			return "pairs{first: rawset(t," + K + ",3)}"
		}
	}
	const head = `for k,v in pairs(t) do emit("p",kn(k),v) `
	switch o.kind {
	case lAssign:
		return fmt.Sprintf("t[%s]=%s", K, luaVal(o.val))
	case lRawset:
		return fmt.Sprintf("rawset(t,%s,%s)", K, luaVal(o.val))
	case lGet:
		return fmt.Sprintf(`emit("g",t[%s])`, K)
	case lPCA:
		return head + `t[k]=nil end emit("pend")`
	case lPAA:
		return head + `t[k]=3 end emit("pend")`
	case lPRA:
		return head + `rawset(t,k,3) end emit("pend")`
	case lPC:
		return head + fmt.Sprintf(`if rawequal(k,%s) then t[k]=nil end end emit("pend")`, K)
	case lPO:
		return "do local f=true " + head + fmt.Sprintf(`if f then f=false if rawget(t,%s)~=nil then t[%s]=nil end end end end emit("pend")`, K, K)
	case lPR:
		return "do local f=true " + head + fmt.Sprintf(`if f then f=false if rawget(t,%s)~=nil then rawset(t,%s,3) end end end end emit("pend")`, K, K)
	}
	return "?"
}

func (c *luaConfig) program(h []uint16) string {
	var sb strings.Builder
	c.header(&sb)
	sb.WriteString("local t\n")
	sb.WriteString(c.startSrc())
	for _, o := range h {
		sb.WriteString(`emit("op") `)
		sb.WriteString(c.stmt(c.ops[o], false))
		sb.WriteByte('\n')
	}
	sb.WriteString(c.dumpSrc())
	return sb.String()
}

func (c *luaConfig) header(sb *strings.Builder) {
	if len(c.args) > 0 {
		sb.WriteString("local ")
		for i := range c.args {
			if i > 0 {
				sb.WriteByte(',')
			}
			fmt.Fprintf(sb, "A%d", i+1)
		}
		sb.WriteString(" = ...\n")
	}
	sb.WriteString("local function kn(k)\n")
	for i, a := range c.args {
		if a.R.K == reftable.KRef {
			fmt.Fprintf(sb, "  if rawequal(k,A%d) then return \"@A%d\" end\n", i+1, i+1)
		}
	}
	sb.WriteString("  return k\nend\n")
}

const metaSrc = `{__index=function(_,k) emit("ix",kn(k)) return nil end, __newindex=function(tt,k,v) emit("ni",kn(k),v) rawset(tt,k,v) end}`

func (c *luaConfig) startSrc() string {
	var sb strings.Builder
	if c.startExpr != "" {
		sb.WriteString("t = " + c.startExpr + "\n")
	} else {
		sb.WriteString("t = {}\n")
		for _, s := range c.start {
			fmt.Fprintf(&sb, "t[%s]=%s\n", c.expr(s.role), luaVal(s.val))
		}
	}
	sb.WriteString("setmetatable(t, " + metaSrc + ")\ncapture(t)\n")
	return sb.String()
}

func (c *luaConfig) dumpSrc() string {
	var sb strings.Builder
	sb.WriteString(`emit("dump")` + "\n" + `emit("len", #t)` + "\n")
	for _, e := range c.exprs {
		fmt.Fprintf(&sb, `emit("rg", rawget(t,%s))`+"\n", e)
	}
	sb.WriteString(`do local k,v = next(t) while k ~= nil do emit("n",kn(k),v) k,v = next(t,k) end end emit("nend")` + "\n")
	for i, e := range c.exprs {
		fmt.Fprintf(&sb, `if rawget(t,%s)~=nil then local ok,a,b = pcall(next,t,%s) emit("nx",%d,ok,kn(a),b) end`+"\n", e, e, i)
	}
	sb.WriteString(`emit("done")` + "\n")
	return sb.String()
}

// library is the chunk that compiles the start state, every operation and the
// final dump ONCE, each as a Lua function over the shared upvalue t; a history
// is then executed by calling these functions in order (one protected call
// with a CPU limit each).  program(h) is the equivalent single chunk.
func (c *luaConfig) library() string {
	var sb strings.Builder
	c.header(&sb)
	sb.WriteString("local t\n")
	sb.WriteString("reg(-1, function()\n" + c.startSrc() + "end)\n")
	for i, o := range c.ops {
		fmt.Fprintf(&sb, "reg(%d, function() %s end)\n", i, c.stmt(o, false))
	}
	sb.WriteString("reg(-2, function()\n" + c.dumpSrc() + "end)\n")
	return sb.String()
}

// ---- trace parsing

func splitEvent(e string) []string {
	// fields are separated by commas; strings are Go-quoted and never contain
	// commas in this check
	return strings.Split(e, ",")
}

func (c *luaConfig) parseKey(f string) (reftable.Key, bool) {
	switch {
	case f == "true":
		return reftable.Bool(true), true
	case f == "false":
		return reftable.Bool(false), true
	case strings.HasPrefix(f, "i:"):
		n, err := strconv.ParseInt(f[2:], 10, 64)
		return reftable.Int(n), err == nil
	case strings.HasPrefix(f, "f:"):
		switch f {
		case "f:nan", "f:inf", "f:-inf":
			return reftable.Key{}, false
		case "f:-0":
			return reftable.Float(math.Copysign(0, -1)), true
		}
		x, err := strconv.ParseFloat(f[2:], 64)
		return reftable.Float(x), err == nil
	case strings.HasPrefix(f, "s:"):
		s, err := strconv.Unquote(f[2:])
		if err != nil {
			return reftable.Key{}, false
		}
		if strings.HasPrefix(s, "@A") {
			i, err := strconv.Atoi(s[2:])
			if err != nil || i < 1 || i > len(c.args) {
				return reftable.Key{}, false
			}
			return c.args[i-1].R, true
		}
		return reftable.Str(s), true
	}
	return reftable.Key{}, false
}

func parseVal(f string) int {
	if f == "nil" {
		return 0
	}
	if strings.HasPrefix(f, "i:") {
		if n, err := strconv.Atoi(f[2:]); err == nil && n >= 1 && n <= 9 {
			return n
		}
	}
	return -1
}

// ---- execution and lock-step check

type luaState struct {
	c      *luaConfig
	layout string
	M      *reftable.Table
	viols  []*vinfo // violations found in the final dump
	h      []uint16
	obs    string
}

func (s *luaState) canon() string    { return s.layout + " | " + s.refDump() }
func (s *luaState) oracle() []*vinfo { return s.viols }
func (s *luaState) refDump() string {
	return s.M.Dump(func(k reftable.Key) string { return k.String() })
}
func (s *luaState) describe() string {
	// confirm with the equivalent stand-alone program
	confirm := "the stand-alone program shows no violation (harness inconsistency?)"
	st2, _, ov, earlier := s.c.execWith(s.h, true)
	if ov != nil {
		confirm = "stand-alone program: " + ov.clause
	} else if earlier {
		confirm = "stand-alone program: violation at an earlier operation"
	} else if vs := st2.oracle(); len(vs) > 0 {
		confirm = "stand-alone program: " + vs[0].clause
	}
	return "observed: " + s.obs + "\nreference contents at the end: " + s.M.Dump(uni().refName) + "\nlayout: " + s.layout +
		"\nequivalent stand-alone program (" + confirm + "; observed " + st2.(*luaState).obs + "):\n" + s.c.program(s.h)
}

func (c *luaConfig) label() string { return "lua " + c.name }
func (c *luaConfig) startDesc() string {
	c.resolve()
	return strings.ReplaceAll(c.program(nil), "\n", " ; ")
}
func (c *luaConfig) nOps() int { return len(c.ops) }
func (c *luaConfig) opName(i uint16) string {
	return c.stmt(c.ops[i], true)
}
func (c *luaConfig) keyOf(i uint16) int { return c.ops[i].key }
func (c *luaConfig) opIndex(o lop) uint16 {
	for i, x := range c.ops {
		if x == o {
			return uint16(i)
		}
	}
	panic("no such op")
}
func (c *luaConfig) withKey(i uint16, key int) uint16 {
	o := c.ops[i]
	o.key = key
	return c.opIndex(o)
}
func (c *luaConfig) lowerVal(i uint16) (uint16, bool) {
	o := c.ops[i]
	if o.kind == lAssign && o.val == 2 {
		o.val = 1
		return c.opIndex(o), true
	}
	return 0, false
}

var captured rt.Value
var regTarget *luaConfig
var hostFuncsInstalled bool

const luaCPU = 200000

var luaExecs int

func installHostFuncs(m *host.Machine) {
	if hostFuncsInstalled {
		return
	}
	all := rt.ComplyCpuSafe | rt.ComplyMemSafe | rt.ComplyIoSafe | rt.ComplyTimeSafe
	f := m.R.SetEnvGoFunc(m.R.GlobalEnv(), "capture", func(t *rt.Thread, gc *rt.GoCont) (rt.Cont, error) {
		captured = gc.Arg(0)
		return gc.Next(), nil
	}, 1, false)
	g := m.R.SetEnvGoFunc(m.R.GlobalEnv(), "reg", func(t *rt.Thread, gc *rt.GoCont) (rt.Cont, error) {
		i, _ := gc.Arg(0).TryInt()
		regTarget.fns[int(i)] = gc.Arg(1)
		return gc.Next(), nil
	}, 2, false)
	rt.SolemnlyDeclareCompliance(all, f, g)
	hostFuncsInstalled = true
}

func (c *luaConfig) argValues() []rt.Value {
	args := make([]rt.Value, len(c.args))
	for i, a := range c.args {
		args[i] = a.V
	}
	return args
}

// compile loads the library chunk once per process.
func (c *luaConfig) compile() {
	if c.fns != nil {
		return
	}
	c.resolve()
	m := uni().m
	installHostFuncs(m)
	c.fns = map[int]rt.Value{}
	regTarget = c
	obs := m.Exec("c03lib", c.library(), c.argValues(), nil)
	if obs.Status != "ok" {
		panic("library chunk failed: " + obs.String() + "\n" + c.library())
	}
}

var cpuDef = &rt.RuntimeContextDef{HardLimits: rt.RuntimeResources{Cpu: luaCPU}}

// run executes history h: start state, each operation, final dump - every
// piece is a precompiled Lua function run under the CPU limit.
func (c *luaConfig) run(h []uint16) host.Obs {
	c.compile()
	m := uni().m
	m.Trace = nil
	m.Ticks = 0
	m.Canon = host.NewCanon()
	captured = rt.NilValue
	// one context (CPU limit) around the whole history
	var o host.Obs
	defer func() {
		if p := recover(); p != nil {
			panic(fmt.Sprintf("go panic in golua while running:\n%s\n%v", c.program(h), p))
		}
	}()
	th := m.R.MainThread()
	ctx, err := th.CallContext(*cpuDef, func() error {
		term := rt.NewTerminationWith(nil, 0, true)
		if err := rt.Call(th, c.fns[-1], nil, term); err != nil {
			return err
		}
		for _, op := range h {
			m.Trace = append(m.Trace, `s:"op"`)
			if err := rt.Call(th, c.fns[int(op)], nil, rt.NewTerminationWith(nil, 0, true)); err != nil {
				return err
			}
		}
		return rt.Call(th, c.fns[-2], nil, rt.NewTerminationWith(nil, 0, true))
	})
	o.Trace = m.Trace
	switch {
	case ctx.Status() == rt.StatusKilled:
		o.Status = "killed"
		if err != nil {
			o.Err = err.Error()
		}
	case err != nil:
		o.Status = "err"
		o.Err = m.Canon.Value(rt.ErrorValue(err))
	default:
		o.Status = "ok"
	}
	return o
}

// runWhole executes the equivalent single chunk program(h) (used to confirm
// reported violations with a stand-alone program).
func (c *luaConfig) runWhole(h []uint16) host.Obs {
	c.resolve()
	m := uni().m
	installHostFuncs(m)
	m.Trace = nil
	m.Ticks = 0
	m.Canon = host.NewCanon()
	captured = rt.NilValue
	return m.Exec("c03", c.program(h), c.argValues(), cpuDef)
}

func (c *luaConfig) exec(h []uint16) (state, bool, *vinfo, bool) {
	return c.execWith(h, false)
}

func (c *luaConfig) execWith(h []uint16, whole bool) (state, bool, *vinfo, bool) {
	luaExecs++
	u := uni()
	var obs host.Obs
	if whole {
		obs = c.runWhole(h)
	} else {
		obs = c.run(h)
	}
	if obs.Status == "gopanic" {
		panic("go panic in golua while running:\n" + c.program(h) + "\n" + obs.Err)
	}
	st := &luaState{c: c, M: reftable.New(), h: append([]uint16{}, h...)}
	if len(obs.Trace) > 60 {
		st.obs = obs.Status + " " + obs.Err + " trace(first 60)=[" + strings.Join(obs.Trace[:60], " | ") + " ...]"
	} else {
		st.obs = obs.String()
	}
	if t, ok := captured.TryTable(); ok {
		st.layout = t.VerifLayout(u.name)
	} else {
		st.layout = "no table captured"
	}
	for _, s := range c.start {
		st.M.Set(u.K(s.role).R, s.val)
	}
	opIdx, v := c.check(h, obs, st)
	if v == nil {
		return st, true, nil, false
	}
	switch {
	case opIdx < len(h)-1:
		return st, true, nil, true
	case opIdx == len(h)-1:
		return st, true, v, false
	}
	st.viols = []*vinfo{v}
	return st, true, nil, false
}

// check walks the trace in lock step with the reference.  It returns the
// index of the operation at which the first violation shows (len(h) = in the
// final dump) and the violation.
func (c *luaConfig) check(h []uint16, obs host.Obs, st *luaState) (int, *vinfo) {
	u := uni()
	M := st.M
	tr := obs.Trace
	pos := 0
	cur := -1 // operation being checked
	fail := func(clause, detail string) (int, *vinfo) {
		return cur, &vinfo{clause, detail}
	}
	// next event or the reason why there is none
	next := func() ([]string, *vinfo) {
		if pos < len(tr) {
			e := splitEvent(tr[pos])
			pos++
			return e, nil
		}
		switch obs.Status {
		case "killed":
			return nil, &vinfo{"killed", "the program was stopped by the CPU limit (" + strconv.Itoa(luaCPU) + "): non-terminating traversal"}
		case "err":
			if strings.Contains(obs.Err, "invalid key") {
				return nil, &vinfo{"trav-invalid-key", "error raised: " + obs.Err}
			}
			return nil, &vinfo{"error", "unexpected error: " + obs.Err}
		case "compile":
			panic("generated program does not compile: " + obs.Err)
		}
		return nil, &vinfo{"trace-short", "trace ended early"}
	}
	expect := func(tag string) ([]string, *vinfo) {
		e, v := next()
		if v != nil {
			return nil, v
		}
		if e[0] != `s:"`+tag+`"` {
			return e, &vinfo{"unexpected-event got=" + strings.Trim(e[0][2:], `"`) + " want=" + tag, "event " + strings.Join(e, ",") + " where " + tag + " was expected"}
		}
		return e, nil
	}
	metaClause := func(got string, present bool) string {
		// got = ni / ix fired although present, or missing although absent
		if present {
			return got + "-fired-key-present"
		}
		return got + "-not-fired-key-absent"
	}
	// pairs loop simulation
	loop := func(o lop) *vinfo {
		trv := M.Traverse()
		first := true
		limit := M.Len() + 3
		for n := 0; ; n++ {
			e, v := next()
			if v != nil {
				return v
			}
			if e[0] == `s:"pend"` {
				break
			}
			if e[0] != `s:"p"` || len(e) != 3 {
				return &vinfo{"unexpected-event got=" + strings.Trim(e[0][2:], `"`) + " want=p", "event " + strings.Join(e, ",") + " inside a pairs loop"}
			}
			if n > limit {
				return &vinfo{"trav-nonterminating", "pairs loop produced more iterations than there are keys"}
			}
			k, ok := c.parseKey(e[1])
			if !ok {
				return &vinfo{"trav-absent key=" + e[1], "pairs produced the key " + e[1]}
			}
			if cl := trv.Visit(k, parseVal(e[2])); cl != "" {
				return &vinfo{cl + " key=" + u.refName(k), fmt.Sprintf("pairs produced (%s,%s): %s (reference value %d)", e[1], e[2], cl, M.Get(k))}
			}
			switch o.kind {
			case lPCA:
				M.Set(k, 0)
			case lPAA, lPRA:
				M.Set(k, 3)
			case lPC:
				if reftable.Equal(k, c.keys[o.key].R) {
					M.Set(k, 0)
				}
			case lPO:
				if first && M.Has(c.keys[o.key].R) {
					M.Set(c.keys[o.key].R, 0)
				}
			case lPR:
				if first && M.Has(c.keys[o.key].R) {
					M.Set(c.keys[o.key].R, 3)
				}
			}
			first = false
		}
		if owed := trv.Owed(); len(owed) > 0 {
			return &vinfo{"trav-missed key=" + u.refName(owed[0]), fmt.Sprintf("pairs loop ended without visiting %d present key(s), first %s", len(owed), u.refName(owed[0]))}
		}
		return nil
	}

	for i, oi := range h {
		cur = i
		o := c.ops[oi]
		if _, v := expect("op"); v != nil {
			return cur - 1, v // the previous operation did something unexpected
		}
		switch o.kind {
		case lAssign:
			k := c.keys[o.key]
			if M.Has(k.R) {
				M.Set(k.R, o.val)
			} else {
				// __newindex must fire
				save := pos
				e, v := next()
				if v != nil {
					return fail(v.clause, v.detail)
				}
				if e[0] != `s:"ni"` {
					pos = save
					return fail(metaClause("newindex", false), fmt.Sprintf("%s: the raw key is absent but __newindex was not called", c.stmt(o, true)))
				}
				gk, ok := c.parseKey(e[1])
				if !ok || !reftable.Equal(gk, k.R) || parseVal(e[2]) != o.val {
					return fail("newindex-arguments", "__newindex called with "+strings.Join(e[1:], ","))
				}
				M.Set(k.R, o.val) // the handler does rawset
			}
		case lRawset:
			M.Set(c.keys[o.key].R, o.val)
		case lGet:
			k := c.keys[o.key]
			e, v := next()
			if v != nil {
				return fail(v.clause, v.detail)
			}
			if e[0] == `s:"ix"` {
				if M.Has(k.R) {
					return fail(metaClause("index", true), fmt.Sprintf("%s: __index called although the raw key is present", c.stmt(o, true)))
				}
				gk, ok := c.parseKey(e[1])
				if !ok || !reftable.Equal(gk, k.R) {
					return fail("index-arguments", "__index called with "+e[1])
				}
				if e, v = next(); v != nil {
					return fail(v.clause, v.detail)
				}
			} else if !M.Has(k.R) {
				return fail(metaClause("index", false), fmt.Sprintf("%s: the raw key is absent but __index was not called (event %s)", c.stmt(o, true), strings.Join(e, ",")))
			}
			if e[0] != `s:"g"` || len(e) != 2 || parseVal(e[1]) != M.Get(k.R) {
				return fail("get", fmt.Sprintf("%s gave %s, reference %d", c.stmt(o, true), strings.Join(e, ","), M.Get(k.R)))
			}
		default:
			if v := loop(o); v != nil {
				return fail(v.clause, v.detail)
			}
		}
		// anything else before the next "op"/"dump" marker is a spurious event
		if pos < len(tr) {
			e := splitEvent(tr[pos])
			if e[0] == `s:"ni"` || e[0] == `s:"ix"` {
				name := "newindex"
				if e[0] == `s:"ix"` {
					name = "index"
				}
				return fail(metaClause(name, true), fmt.Sprintf("%s: metamethod called (%s) although the raw key is present", c.stmt(o, true), strings.Join(e, ",")))
			}
		}
	}
	// final dump
	cur = len(h)
	if _, v := expect("dump"); v != nil {
		if len(h) > 0 {
			cur = len(h) - 1
		}
		return fail(v.clause, v.detail)
	}
	e, v := expect("len")
	if v != nil {
		return fail(v.clause, v.detail)
	}
	if n, err := strconv.ParseInt(strings.TrimPrefix(e[1], "i:"), 10, 64); err != nil || !M.IsBorder(n) {
		return fail("len-border len="+e[1], fmt.Sprintf("#t = %s is not a border; borders in 0..40: %v", e[1], M.Borders(40)))
	}
	for i := range c.keys {
		e, v := expect("rg")
		if v != nil {
			return fail(v.clause, v.detail)
		}
		if parseVal(e[1]) != M.Get(c.keys[i].R) {
			return fail("get probe="+c.menu[i], fmt.Sprintf("rawget(t,%s) = %s, reference %d", c.menu[i], e[1], M.Get(c.keys[i].R)))
		}
	}
	trv := M.Traverse()
	var order []reftable.Key
	for n := 0; ; n++ {
		e, v := next()
		if v != nil {
			return fail(v.clause, v.detail)
		}
		if e[0] == `s:"nend"` {
			break
		}
		if e[0] != `s:"n"` || len(e) != 3 {
			return fail("unexpected-event got="+strings.Trim(e[0][2:], `"`)+" want=n", "event "+strings.Join(e, ","))
		}
		if n > M.Len()+2 {
			return fail("trav-nonterminating", "next loop produced more keys than the table has")
		}
		k, ok := c.parseKey(e[1])
		if !ok {
			return fail("trav-absent key="+e[1], "next produced the key "+e[1])
		}
		if cl := trv.Visit(k, parseVal(e[2])); cl != "" {
			return fail(cl+" key="+u.refName(k), fmt.Sprintf("next produced (%s,%s): %s", e[1], e[2], cl))
		}
		order = append(order, k)
	}
	if owed := trv.Owed(); len(owed) > 0 {
		return fail("trav-missed key="+u.refName(owed[0]), fmt.Sprintf("next loop ended without visiting %d present key(s)", len(owed)))
	}
	// next(t, K) for every present menu key, in every spelling
	for i, k := range c.keys {
		if !M.Has(k.R) {
			continue
		}
		e, v := expect("nx")
		if v != nil {
			return fail(v.clause, v.detail)
		}
		if e[1] != "i:"+strconv.Itoa(i) {
			return fail("next-spelling key="+c.menu[i], "next(t,K) events out of step: "+strings.Join(e, ","))
		}
		nk, _ := reftable.Norm(k.R)
		var succ *reftable.Key
		for j := range order {
			if order[j] == nk && j+1 < len(order) {
				succ = &order[j+1]
			}
		}
		okRes := e[2] == "true"
		if !okRes {
			return fail("next-spelling key="+c.menu[i], fmt.Sprintf("next(t,%s) raised an error although the key is present", c.menu[i]))
		}
		if succ == nil {
			if e[3] != "nil" {
				return fail("next-spelling key="+c.menu[i], fmt.Sprintf("next(t,%s) = %s, expected nil (last key)", c.menu[i], e[3]))
			}
		} else {
			gk, ok := c.parseKey(e[3])
			if !ok || gk != *succ || parseVal(e[4]) != M.Get(*succ) {
				return fail("next-spelling key="+c.menu[i], fmt.Sprintf("next(t,%s) = %s,%s, the traversal order says %s", c.menu[i], e[3], e[4], u.refName(*succ)))
			}
		}
	}
	if _, v := expect("done"); v != nil {
		return fail(v.clause, v.detail)
	}
	if obs.Status != "ok" {
		return fail("error", "status "+obs.Status+" "+obs.Err)
	}
	return 0, nil
}

// ---- configurations

func luaConfigs() []*luaConfig {
	var cs []*luaConfig
	add := func(c *luaConfig) { c.buildOps(); cs = append(cs, c) }
	add(&luaConfig{name: "empty/arr", menu: []string{"i1", "i2", "f2", "i3"}, depthQ: 4, depthT: 6})
	add(&luaConfig{name: "empty/hash", menu: []string{"i10", "f10", "s:x", "true"}, depthQ: 4, depthT: 6})
	add(&luaConfig{name: "empty/zero", menu: []string{"i0", "f0", "i1", "i-1"}, depthQ: 3, depthT: 5})
	add(&luaConfig{name: "empty/clo", menu: []string{"C40a", "C41a", "W44a", "T02a"}, depthQ: 4, depthT: 6})
	add(&luaConfig{name: "empty/big", menu: []string{"i2^53", "f2^53", "f2^63", "f1.5", "imin", "f-2^63"}, depthQ: 3, depthT: 5})
	add(&luaConfig{name: "ctor3", startExpr: "{1,2,3}", start: []sop{{"i1", 1}, {"i2", 2}, {"i3", 3}}, menu: []string{"i1", "i3", "f3", "i4"}, depthQ: 4, depthT: 6})
	add(&luaConfig{name: "ctor1+zero", startExpr: "{1}", start: []sop{{"i1", 1}}, menu: []string{"i0", "i1", "i2"}, depthQ: 3, depthT: 5})
	add(&luaConfig{name: "hash10", start: sets(1, "i10", "s:x"), menu: []string{"i10", "f10", "i1", "s:x"}, depthQ: 4, depthT: 6})
	add(&luaConfig{name: "int9", start: sets(7, ints(1, 9)...), menu: []string{"i8", "i9", "f9", "i10", "i1"}, depthQ: 3, depthT: 5})
	add(&luaConfig{name: "int16", start: sets(7, ints(1, 16)...), menu: []string{"i16", "f16", "i17", "i1", "i15"}, depthQ: 3, depthT: 5})
	add(&luaConfig{name: "str9", start: sets(7, str9...), menu: []string{"S01a", "S17a", "S05c", "S15a", "i1"}, depthQ: 3, depthT: 5})
	add(&luaConfig{name: "str16", start: sets(7, str16...), menu: []string{"S01a", "S33a", "S49a", "S05a", "i1"}, depthQ: 3, depthT: 5})
	add(&luaConfig{name: "mix17", start: mixTo(mix17, 7), menu: []string{"i4", "f4", "i5", "S01a", "true", "f1.5"}, depthQ: 3, depthT: 5})
	add(&luaConfig{name: "clo9", start: cat(sets(7, str8...), sets(7, "C40a")), menu: []string{"C40a", "C41a", "W44a", "S01a"}, depthQ: 3, depthT: 5})
	add(&luaConfig{name: "int16/tomb", start: cat(sets(7, ints(1, 16)...), sets(0, "i16", "i15", "i3")), menu: []string{"i14", "i15", "i16", "i3", "f3"}, depthQ: 3, depthT: 5})
	return cs
}

func mixTo(s []sop, v int) []sop {
	out := make([]sop, len(s))
	for i := range s {
		out[i] = sop{s[i].role, v}
	}
	return out
}

type luaCaseRef struct {
	cfg    *luaConfig
	firsts []uint16
}

func luaFamilies(tier string) []*core.Family {
	var cases []luaCaseRef
	for _, c := range luaConfigs() {
		for _, g := range groups(len(c.ops), luaGroups) {
			cases = append(cases, luaCaseRef{c, g})
		}
	}
	caseCap := caseCapFor(tier)
	hang, budget := scaleBudget(200), scaleBudget(18)
	if tier == "thorough" {
		hang, budget = scaleBudget(900), scaleBudget(150)
	}
	search := &core.Family{
		Name:          "lua-search",
		Size:          uint64(len(cases)),
		HangSeconds:   hang,
		BudgetSeconds: budget,
		Show: func(i uint64) string {
			cr := cases[i]
			cr.cfg.resolve()
			return fmt.Sprintf("lua %s; first operation one of: %s\nprogram for the first of them:\n%s", cr.cfg.name, firstNames(cr.cfg, cr.firsts), cr.cfg.program(cr.firsts[:1]))
		},
		Run: func(i uint64) core.Outcome {
			cr := cases[i]
			depth := cr.cfg.depthQ
			if tier == "thorough" {
				depth = cr.cfg.depthT
			}
			until := time.Now().Add(caseCap)
			if gd := globalDeadline(); gd.Before(until) {
				until = gd
			}
			res := searchCase(cr.cfg, cr.firsts, depth, until)
			if res.truncated {
				noteTruncated("lua-search", i, res.depthDone)
			}
			o := core.Outcome{States: res.states, Trans: res.trans, Viols: res.viols}
			o.NonTrivial = res.states > 1
			o.Sig = mapsSig(res.maps)
			if os.Getenv("C03_DEBUG") != "" {
				fmt.Fprintf(os.Stderr, "case %d: states=%d trans=%d execs=%d viols=%d truncated=%v\n", i, res.states, res.trans, luaExecs, len(res.viols), res.truncated)
			}
			return o
		},
	}
	return []*core.Family{search, luaBadKeyFamily()}
}

// luaBadKeyFamily: nil and NaN keys from Lua.
func luaBadKeyFamily() *core.Family {
	type bk struct {
		name, stmt string
		wantErr    bool
	}
	stmts := []bk{
		{"t[nan]=1", "t[0/0]=1", true},
		{"t[nil]=1", "t[nil]=1", true},
		{"rawset(t,nan,1)", "rawset(t,0/0,1)", true},
		{"rawset(t,nil,1)", "rawset(t,nil,1)", true},
		{"read t[nan]", "assert(t[0/0]==nil)", false},
		{"read t[nil]", "assert(t[nil]==nil)", false},
		{"rawget(t,nan)", "assert(rawget(t,0/0)==nil)", false},
		{"rawget(t,nil)", "assert(rawget(t,nil)==nil)", false},
		{"t[-nan]=1", "t[-(0/0)]=1", true},
	}
	starts := []struct{ name, src string }{
		{"empty", "local t = {}"},
		{"ctor3", "local t = {1,2,3}"},
		{"grown20", "local t = {} for i=1,20 do t[i]=i t['k'..i]=i end"},
	}
	n := uint64(len(stmts))
	return &core.Family{
		Name: "lua-badkey",
		Size: n * uint64(len(starts)),
		Show: func(i uint64) string { return starts[i/n].src + " ; " + stmts[i%n].stmt },
		Run: func(i uint64) core.Outcome {
			b, s := stmts[i%n], starts[i/n]
			src := s.src + `
local function dump() local n=0 local sum=0 for k,v in pairs(t) do n=n+1 sum=sum+v end return n,sum end
local n0,s0 = dump()
local ok = pcall(function() ` + b.stmt + ` end)
local n1,s1 = dump()
emit(ok, n0==n1 and s0==s1)`
			obs := host.Run(src, host.Opts{CPU: luaCPU})
			o := core.Outcome{NonTrivial: true, Sig: core.Hash64(obs.String())}
			want := "true,true"
			if b.wantErr {
				want = "false,true"
			}
			if obs.Status != "ok" || len(obs.Trace) != 1 || obs.Trace[0] != want {
				o.Viol = &core.Violation{
					Key:    fmt.Sprintf("lua-badkey start=%s stmt=%s clause=%s", s.name, b.name, map[bool]string{true: "must-raise-error-and-change-nothing", false: "must-give-nil"}[b.wantErr]),
					Detail: "program:\n" + src + "\nexpected emit(" + want + ")\nobserved: " + obs.String(),
				}
			}
			return o
		},
	}
}
