package main

// Value equality vs table-key equality for every ordered pair of alphabet
// values, in a small (unhashed), a hashed and a mixed array+hash table; plus
// the nil / NaN key rules of the checking Go API.

import (
	"fmt"
	"math"

	rt "github.com/arnodel/golua/runtime"

	"verif/engine/core"
	"verif/engine/reftable"
)

var eqRoles = append(append([]string{}, fixedRoles...),
	"S01a", "S01b", "S17a", "L05a", "L05b", "N07a", "P12a", "D06a",
	"T02a", "T02b", "T03a",
	"C40a", "C41a", "C40b", "U42a", "U43a", "U42b", "W44a", "W45a", "W44b", "X46a", "X40a", "G47a", "G47b")

type eqCtx struct {
	name  string
	start []sop
}

var eqCtxs = []eqCtx{
	{"small", nil},
	{"hashed16", sets(7, "S02a", "S03a", "S04a", "S06a", "S07a", "S08a", "S09a", "S10a", "S11a")},
	{"mixed64", cat(sets(7, ints(1, 8)...), sets(7, strN33()...))},
}

func eqFamilies(tier string) []*core.Family {
	n := uint64(len(eqRoles))
	nc := uint64(len(eqCtxs))
	get := func(i uint64) (a, b string, ctx eqCtx) {
		return eqRoles[i%n], eqRoles[i/n%n], eqCtxs[i/n/n]
	}
	pairs := &core.Family{
		Name: "eq-pairs",
		Size: n * n * nc,
		Show: func(i uint64) string {
			a, b, c := get(i)
			return fmt.Sprintf("ctx=%s a=%s b=%s: RawEqual(a,b) vs (Set(a,1); Get(b)) vs (Set(b,2); Get(a))", c.name, a, b)
		},
		Run: func(i uint64) core.Outcome {
			ra, rb, ctx := get(i)
			u := uni()
			a, b := u.K(ra), u.K(rb)
			o := core.Outcome{NonTrivial: true}
			viol := func(clause, detail string) {
				o.Viols = append(o.Viols, &core.Violation{
					Key:    fmt.Sprintf("eq ctx=%s pair=%s a=%s b=%s clause=%s", ctx.name, pairKind(a, b), ra, rb, clause),
					Detail: detail,
				})
			}
			gotEq, _ := rt.RawEqual(a.V, b.V)
			want := reftable.Equal(a.R, b.R)
			free := mayEqual(a, b)
			if free {
				want = gotEq // §3.4.4 leaves it open; everything else has to agree with golua's answer
			}
			if ctx.name == "small" {
				// value level (once per pair)
				if gotEq != want {
					viol("rawequal", fmt.Sprintf("RawEqual(%s,%s) = %v, manual: %v", ra, rb, gotEq, want))
				}
				if back, _ := rt.RawEqual(b.V, a.V); back != gotEq {
					viol("rawequal-symmetry", fmt.Sprintf("RawEqual(%s,%s) = %v but RawEqual(%s,%s) = %v", ra, rb, gotEq, rb, ra, back))
				}
				sameNumKind := a.R.K == b.R.K || !(isNum(a.R) && isNum(b.R))
				if sameNumKind {
					if e := a.V.Equals(b.V); e != want {
						viol("value-equals", fmt.Sprintf("Value.Equals(%s,%s) = %v, manual: %v", ra, rb, e, want))
					}
				}
			}
			// key level
			_, aKey := reftable.Norm(a.R)
			_, bKey := reftable.Norm(b.R)
			if !aKey {
				// a cannot be a key (NaN): only the read side exists
				t := rt.NewTable()
				for _, s := range ctx.start {
					t.Set(u.K(s.role).V, valOf(s.val))
				}
				if v := t.Get(a.V); !v.IsNil() {
					viol("get-nan", "Get(NaN) is not nil")
				}
				o.Sig = core.Hash64(fmt.Sprint(ra, rb, ctx.name, "nan"))
				return o
			}
			t := rt.NewTable()
			m := reftable.New()
			for _, s := range ctx.start {
				t.Set(u.K(s.role).V, valOf(s.val))
				m.Set(u.K(s.role).R, s.val)
			}
			t.Set(a.V, valOf(1))
			m.Set(a.R, 1)
			found := refVal(t.Get(b.V))
			if wantFound := m.Get(b.R); found != wantFound {
				viol("key-eq-get", fmt.Sprintf("after Set(%s,1): Get(%s) = %d, expected %d (values equal=%v)", ra, rb, found, wantFound, want))
			}
			if bKey {
				t.Set(b.V, valOf(2))
				m.Set(b.R, 2)
				wa := m.Get(a.R)
				if g := refVal(t.Get(a.V)); g != wa {
					viol("key-eq-set", fmt.Sprintf("after Set(%s,1); Set(%s,2): Get(%s) = %d, expected %d (values equal=%v)", ra, rb, ra, g, wa, want))
				}
				if err := t.VerifCheckInvariants(); err != nil {
					viol("key-eq-invariant", err.Error())
				}
			}
			o.Sig = core.Hash64(fmt.Sprint(ra, rb, ctx.name, gotEq, found))
			return o
		},
	}

	// nil / NaN keys through the checking API, and reads with them.
	bad := []struct {
		name string
		v    rt.Value
	}{{"nil", rt.NilValue}, {"nan", rt.FloatValue(math.NaN())}, {"-nan", rt.FloatValue(math.Float64frombits(0xfff8000000000001))}}
	badKey := &core.Family{
		Name: "go-badkey",
		Size: uint64(len(bad) * len(eqCtxs)),
		Show: func(i uint64) string {
			return fmt.Sprintf("Runtime.SetTableCheck(t, %s, 1) in table %s must fail and change nothing; Get gives nil", bad[i%uint64(len(bad))].name, eqCtxs[i/uint64(len(bad))].name)
		},
		Run: func(i uint64) core.Outcome {
			bk := bad[i%uint64(len(bad))]
			ctx := eqCtxs[i/uint64(len(bad))]
			u := uni()
			o := core.Outcome{NonTrivial: true}
			t := rt.NewTable()
			for _, s := range ctx.start {
				t.Set(u.K(s.role).V, valOf(s.val))
			}
			before := t.VerifLayout(u.name)
			err := u.m.R.SetTableCheck(t, bk.v, rt.IntValue(1))
			after := t.VerifLayout(u.name)
			key := fmt.Sprintf("badkey ctx=%s key=%s clause=", ctx.name, bk.name)
			if err == nil {
				o.Viols = append(o.Viols, &core.Violation{Key: key + "no-error", Detail: "SetTableCheck accepted the key"})
			}
			if before != after {
				o.Viols = append(o.Viols, &core.Violation{Key: key + "table-changed", Detail: before + "\n" + after})
			}
			if !t.Get(bk.v).IsNil() {
				o.Viols = append(o.Viols, &core.Violation{Key: key + "get", Detail: "Get is not nil"})
			}
			o.Sig = core.Hash64(fmt.Sprint(bk.name, ctx.name, err != nil))
			return o
		},
	}
	return []*core.Family{pairs, badKey}
}

func isNum(k reftable.Key) bool { return k.K == reftable.KInt || k.K == reftable.KFloat }

// pairKind classifies a pair of alphabet values for the violation key.
func pairKind(a, b *AKey) string {
	switch {
	case mayEqual(a, b):
		return "closures-may-be-equal"
	case isNum(a.R) && isNum(b.R):
		return "numbers"
	case a.R.K == reftable.KStr && b.R.K == reftable.KStr:
		return "strings"
	case a.R.K == reftable.KRef && b.R.K == reftable.KRef:
		return "objects"
	}
	return "mixed-types"
}
