package main

// Explicit-state search (E2) over operation histories of the real
// *runtime.Table through its Go API, in lock step with reftable.

import (
	"fmt"
	"regexp"
	"sort"
	"strings"

	rt "github.com/arnodel/golua/runtime"

	"verif/engine/reftable"
)

type opKind uint8

const (
	opSet opKind = iota
	opReset
	opWalkTo
	opStep
)

type op struct {
	kind opKind
	key  int // index in config.menu
	val  int
}

type sop struct {
	role string
	val  int
}

type config struct {
	family string
	name   string
	start  []sop
	menu   []string
	vals   []int
	depthQ int
	depthT int
	note   string
	groups int // number of Family cases the first operations are split into (0 = default)

	ops    []op
	keys   []*AKey // menu keys (resolved lazily)
	probes []*AKey
	ready  bool
}

func (c *config) buildOps() {
	if c.ops != nil {
		return
	}
	if c.vals == nil {
		c.vals = []int{0, 1, 2}
	}
	for k := range c.menu {
		for _, v := range c.vals {
			c.ops = append(c.ops, op{opSet, k, v})
		}
	}
	for k := range c.menu {
		for _, v := range c.vals {
			c.ops = append(c.ops, op{opReset, k, v})
		}
	}
	for k := range c.menu {
		c.ops = append(c.ops, op{opWalkTo, k, 0})
	}
	c.ops = append(c.ops, op{opStep, 0, 0})
}

func (c *config) resolve() {
	if c.ready {
		return
	}
	u := uni()
	seen := map[string]bool{}
	add := func(role string) *AKey {
		k := u.K(role)
		if !seen[role] {
			seen[role] = true
			c.probes = append(c.probes, k)
		}
		return k
	}
	for _, r := range fixedRoles {
		add(r)
	}
	for _, s := range c.start {
		add(s.role)
	}
	for _, r := range c.menu {
		c.keys = append(c.keys, add(r))
	}
	c.ready = true
}

func (c *config) opString(o op) string {
	switch o.kind {
	case opSet:
		return fmt.Sprintf("Set(%s,%s)", c.menu[o.key], valName(o.val))
	case opReset:
		return fmt.Sprintf("Reset(%s,%s)", c.menu[o.key], valName(o.val))
	case opWalkTo:
		return fmt.Sprintf("WalkTo(%s)", c.menu[o.key])
	}
	return "Step"
}

func (c *config) startName() string {
	var sb strings.Builder
	for i, s := range c.start {
		if i > 0 {
			sb.WriteByte(';')
		}
		fmt.Fprintf(&sb, "Set(%s,%s)", s.role, valName(s.val))
	}
	return sb.String()
}

// sim is one explored state: the real table, the reference, and the
// traversal in progress (if any).
type sim struct {
	T    *rt.Table
	M    *reftable.Table
	tr   *reftable.Traversal
	curV rt.Value        // last key handed out by Next (argument of the next Next)
	upd  map[string]bool // kinds of updates applied since the traversal started
}

// walkTag names the updates applied during the traversal in progress.
func (s *sim) walkTag() string {
	if len(s.upd) == 0 {
		return "none"
	}
	ks := make([]string, 0, len(s.upd))
	for k := range s.upd {
		ks = append(ks, k)
	}
	sort.Strings(ks)
	return strings.Join(ks, "+")
}

func (s *sim) noteUpd(kind string) {
	if s.tr == nil {
		return
	}
	if s.upd == nil {
		s.upd = map[string]bool{}
	}
	s.upd[kind] = true
}

func newSim(c *config) *sim {
	u := uni()
	s := &sim{T: rt.NewTable(), M: reftable.New()}
	for _, so := range c.start {
		k := u.K(so.role)
		s.T.Set(k.V, valOf(so.val))
		s.M.Set(k.R, so.val)
	}
	return s
}

// step advances the traversal in progress by one Next call.
func (s *sim) step() *vinfo {
	u := uni()
	after := u.name(s.curV)
	if s.curV.IsNil() {
		after = "start"
	}
	after += " walk=" + s.walkTag()
	nk, nv, ok := s.T.Next(s.curV)
	if !ok {
		return &vinfo{"trav-invalid-key after=" + after, "Next(" + after + ") returned ok=false (\"invalid key\") although the key was present when the traversal started and only existing fields were assigned or cleared since"}
	}
	if nk.IsNil() {
		owed := s.tr.Owed()
		s.tr = nil
		s.curV = rt.NilValue
		s.upd = nil
		if len(owed) > 0 {
			return &vinfo{"trav-missed key=" + u.refName(owed[0]) + " after=" + after, fmt.Sprintf("traversal ended after %s without visiting %d present key(s), first %s", after, len(owed), u.refName(owed[0]))}
		}
		return nil
	}
	rk := u.refOf(nk)
	if cl := s.tr.Visit(rk, refVal(nv)); cl != "" {
		return &vinfo{cl + " key=" + u.name(nk) + " after=" + after, fmt.Sprintf("Next(%s) produced (%s,%s): %s (reference value %d)", after, u.name(nk), u.name(nv), cl, s.M.Get(rk))}
	}
	s.curV = nk
	return nil
}

// apply executes o; enabled=false means o is not applicable in this state.
func (s *sim) apply(c *config, o op) (enabled bool, v *vinfo) {
	k := c.keys[o.key]
	switch o.kind {
	case opSet:
		if s.tr != nil && !s.M.Has(k.R) {
			// assignment to a non-existent field: the traversal in progress is
			// abandoned (its continuation is undefined, §6.1 next)
			s.tr, s.curV, s.upd = nil, rt.NilValue, nil
		} else if o.val == 0 {
			s.noteUpd("clear-by-Set")
		} else {
			s.noteUpd("assign-by-Set")
		}
		s.T.Set(k.V, valOf(o.val))
		s.M.Set(k.R, o.val)
		return true, nil
	case opReset:
		if s.M.Has(k.R) {
			if o.val == 0 {
				s.noteUpd("clear-by-Reset")
			} else {
				s.noteUpd("assign-by-Reset")
			}
		}
		got := s.T.Reset(k.V, valOf(o.val))
		want := s.M.Reset(k.R, o.val)
		if got != want {
			sp := "canonical"
			if n, _ := reftable.Norm(k.R); n != k.R {
				sp = "float-spelling"
			}
			return true, &vinfo{"reset-return key=" + sp, fmt.Sprintf("Reset(%s,%s) returned %v, the reference says the key was present: %v", k.Role, valName(o.val), got, want)}
		}
		return true, nil
	case opWalkTo:
		if s.tr != nil {
			return false, nil
		}
		n, ok := reftable.Norm(k.R)
		if !ok || n != k.R || !s.M.Has(k.R) {
			return false, nil
		}
		s.tr = s.M.Traverse()
		s.curV = rt.NilValue
		s.upd = nil
		for i := 0; i <= s.M.Len(); i++ {
			if v := s.step(); v != nil {
				return true, v
			}
			if s.tr == nil {
				break
			}
			if uni().refOf(s.curV) == n {
				return true, nil
			}
		}
		return true, &vinfo{"trav-walkto-unreached", "walk did not reach " + k.Role}
	case opStep:
		if s.tr == nil {
			return false, nil
		}
		return true, s.step()
	}
	return false, nil
}

func (s *sim) canon() string {
	u := uni()
	var sb strings.Builder
	sb.WriteString(s.T.VerifLayout(u.name))
	sb.WriteString(" | ")
	sb.WriteString(s.M.Dump(func(k reftable.Key) string { return k.String() }))
	if s.tr != nil {
		sb.WriteString(" | cur=")
		sb.WriteString(u.name(s.curV))
		sb.WriteString(" visited=")
		for _, k := range s.tr.VisitedKeys() {
			sb.WriteString(k.String())
			sb.WriteByte(' ')
		}
	}
	return sb.String()
}

var digits = regexp.MustCompile(`[0-9]+`)

// oracle checks every clause in state s (read-only on the real table).
func (s *sim) oracleFor(c *config) (out []*vinfo) {
	u := uni()
	before := s.T.VerifLayout(u.name)
	if err := s.T.VerifCheckInvariants(); err != nil {
		out = append(out, &vinfo{"invariant " + strings.TrimSpace(digits.ReplaceAllString(err.Error(), "#")), err.Error()})
	}
	// Get agrees with the reference for every alphabet key in every spelling.
	for _, k := range c.probes {
		got := refVal(s.T.Get(k.V))
		want := s.M.Get(k.R)
		if got != want {
			out = append(out, &vinfo{"get probe=" + k.Role, fmt.Sprintf("Get(%s) = %s, reference %s", k.Role, u.name(s.T.Get(k.V)), valName(want))})
			break
		}
	}
	// Len is a border.
	if n := s.T.Len(); !s.M.IsBorder(n) {
		out = append(out, &vinfo{fmt.Sprintf("len-border len=%d", n), fmt.Sprintf("Len() = %d is not a border; borders in 0..40: %v", n, s.M.Borders(40))})
	}
	// Traversal contract: from the start, or the rest of the one in progress.
	{
		w := &sim{T: s.T, M: s.M, curV: s.curV, upd: s.upd}
		if s.tr != nil {
			w.tr = s.tr.Clone(s.M)
		} else {
			w.tr = s.M.Traverse()
		}
		bound := s.M.Len() + 1
		steps := 0
		for w.tr != nil {
			if steps > bound {
				out = append(out, &vinfo{"trav-nonterminating", fmt.Sprintf("traversal still running after %d Next calls on a table of %d keys", steps, s.M.Len())})
				break
			}
			if v := w.step(); v != nil {
				out = append(out, v)
				break
			}
			steps++
		}
	}
	// Next(k) does not depend on the spelling of k.
	for _, k := range c.probes {
		n, ok := reftable.Norm(k.R)
		if !ok || n == k.R || !s.M.Has(k.R) {
			continue
		}
		a1, a2, a3 := s.T.Next(k.V)
		b1, b2, b3 := s.T.Next(rt.IntValue(n.I))
		if a3 != b3 || u.name(a1) != u.name(b1) || u.name(a2) != u.name(b2) {
			out = append(out, &vinfo{"next-spelling key=" + k.Role, fmt.Sprintf("Next(%s) = (%s,%s,%v) but Next(%s) = (%s,%s,%v)", k.Role, u.name(a1), u.name(a2), a3, u.refName(n), u.name(b1), u.name(b2), b3)})
			break
		}
	}
	if after := s.T.VerifLayout(u.name); after != before {
		out = append(out, &vinfo{"read-mutates", "Get/Len/Next changed the layout:\n" + before + "\n" + after})
	}
	return out
}

// ---- space / state implementation

type goState struct {
	c *config
	s *sim
}

func (g goState) canon() string    { return g.s.canon() }
func (g goState) oracle() []*vinfo { return g.s.oracleFor(g.c) }
func (g goState) refDump() string {
	return g.s.M.Dump(func(k reftable.Key) string { return k.String() })
}
func (g goState) describe() string {
	return "reference contents: " + g.s.M.Dump(uni().refName) + "\nlayout: " + g.s.T.VerifLayout(uni().name)
}

func (c *config) label() string          { return "go " + c.name }
func (c *config) startDesc() string      { return c.startName() }
func (c *config) nOps() int              { return len(c.ops) }
func (c *config) opName(i uint16) string { return c.opString(c.ops[i]) }

func (c *config) exec(h []uint16) (state, bool, *vinfo, bool) {
	c.resolve()
	s := newSim(c)
	var last *vinfo
	for i, o := range h {
		en, v := s.apply(c, c.ops[o])
		if !en {
			return nil, false, nil, false
		}
		if i == len(h)-1 {
			last = v
		} else if v != nil {
			return goState{c, s}, true, nil, true
		}
	}
	return goState{c, s}, true, last, false
}

func (c *config) keyOf(i uint16) int {
	if c.ops[i].kind == opStep {
		return -1
	}
	return c.ops[i].key
}

func (c *config) opIndex(o op) uint16 {
	for i, x := range c.ops {
		if x == o {
			return uint16(i)
		}
	}
	panic("no such op")
}

func (c *config) withKey(i uint16, key int) uint16 {
	o := c.ops[i]
	o.key = key
	return c.opIndex(o)
}

func (c *config) lowerVal(i uint16) (uint16, bool) {
	o := c.ops[i]
	if (o.kind == opSet || o.kind == opReset) && o.val == 2 {
		o.val = 1
		return c.opIndex(o), true
	}
	return 0, false
}
