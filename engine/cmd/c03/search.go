package main

// Generic explicit-state search: breadth first over operation histories,
// every successor obtained by replaying the history on a fresh real object,
// de-duplicated on a canonical state string, oracle evaluated in every new
// state; violating states are reported (with a shrunk history) and not
// expanded.

import (
	"crypto/sha1"
	"fmt"
	"sort"
	"strings"
	"time"

	"verif/engine/core"
)

type vinfo struct {
	clause string
	detail string
}

type state interface {
	canon() string
	oracle() []*vinfo // violated clauses of this state (read-only checks)
	refDump() string  // reference contents, process independent
	describe() string
}

type space interface {
	label() string
	startDesc() string
	nOps() int
	opName(i uint16) string
	// exec replays h on a fresh real object.  enabled=false: some operation
	// of h is not applicable where it stands.  opViol: misbehaviour of the
	// last operation itself.  earlier=true: an operation before the last one
	// misbehaved (h is not a clean history).
	exec(h []uint16) (st state, enabled bool, opViol *vinfo, earlier bool)
	keyOf(i uint16) int // menu key index of operation i, -1 if none
	withKey(i uint16, key int) uint16
	lowerVal(i uint16) (uint16, bool)
}

type caseResult struct {
	states, trans uint64
	viols         []*core.Violation
	maps          map[string]struct{}
	truncated     bool
	depthDone     int
}

const maxViolsPerCase = 40

func histName(sp space, h []uint16) string {
	parts := make([]string, len(h))
	for i, o := range h {
		parts[i] = sp.opName(o)
	}
	return strings.Join(parts, ";")
}

func classOf(clause string) string {
	if i := strings.IndexByte(clause, ' '); i >= 0 {
		return clause[:i]
	}
	return clause
}

func isSubsequence(m, h []uint16) bool {
	j := 0
	for _, o := range h {
		if j < len(m) && m[j] == o {
			j++
		}
	}
	return j == len(m)
}

// violates replays h and returns the violation of the given class shown by
// its last operation or its final state.
func violates(sp space, h []uint16, class string) (*vinfo, state) {
	st, en, ov, earlier := sp.exec(h)
	if !en || earlier {
		return nil, nil
	}
	if ov != nil {
		if classOf(ov.clause) == class {
			return ov, st
		}
		return nil, nil
	}
	for _, v := range st.oracle() {
		if classOf(v.clause) == class {
			return v, st
		}
	}
	return nil, nil
}

// minimise shrinks a violating history deterministically while a violation
// of the same class remains: remove operations (leftmost first); with full
// also lower values, rename a key consistently to an earlier menu key, and
// replace single keys by earlier menu keys; repeated to a fixpoint.  Every
// candidate is executed on a fresh real object, so the result is a genuine
// failing input.
func minimise(sp space, h []uint16, v *vinfo, st state, full bool) ([]uint16, *vinfo, state) {
	class := classOf(v.clause)
	try := func(h2 []uint16) bool {
		if v2, s2 := violates(sp, h2, class); v2 != nil {
			h, v, st = h2, v2, s2
			return true
		}
		return false
	}
	for changed := true; changed; {
		changed = false
		for i := 0; len(h) > 1 && i < len(h); i++ {
			h2 := make([]uint16, 0, len(h)-1)
			h2 = append(h2, h[:i]...)
			h2 = append(h2, h[i+1:]...)
			if try(h2) {
				changed = true
				i = -1
			}
		}
		if !full {
			break
		}
		for i := range h {
			if lo, ok := sp.lowerVal(h[i]); ok {
				h2 := append([]uint16{}, h...)
				h2[i] = lo
				if try(h2) {
					changed = true
				}
			}
		}
		for i := 0; i < len(h); i++ {
			a := sp.keyOf(h[i])
			for j := 0; j < a; j++ {
				h2 := append([]uint16{}, h...)
				for x := range h2 {
					if sp.keyOf(h2[x]) == a {
						h2[x] = sp.withKey(h2[x], j)
					}
				}
				if try(h2) {
					changed = true
					break
				}
			}
		}
		for i := range h {
			a := sp.keyOf(h[i])
			for j := 0; j < a; j++ {
				h2 := append([]uint16{}, h...)
				h2[i] = sp.withKey(h[i], j)
				if try(h2) {
					changed = true
					break
				}
			}
		}
	}
	return h, v, st
}

// searchCase runs the sub-search below the given first operations to the
// given depth (number of operations including the first).
func searchCase(sp space, firsts []uint16, depth int, until time.Time) *caseResult {
	res := &caseResult{maps: map[string]struct{}{}}
	visited := map[[16]byte]struct{}{}
	seenKeys := map[string]bool{}
	var minimal [][]uint16
	var minimalClass []string
	report := func(h []uint16, v *vinfo, st state) {
		if len(res.viols) >= maxViolsPerCase {
			return
		}
		class := classOf(v.clause)
		for i, m := range minimal {
			if minimalClass[i] == class && isSubsequence(m, h) {
				return // the same minimal scenario is already reported
			}
		}
		h, v, st = minimise(sp, h, v, st, false)
		minimal = append(minimal, h)
		minimalClass = append(minimalClass, class)
		h, v, st = minimise(sp, h, v, st, true)
		key := fmt.Sprintf("%s clause=%s hist=%s", sp.label(), v.clause, histName(sp, h))
		if seenKeys[key] {
			return
		}
		seenKeys[key] = true
		res.viols = append(res.viols, &core.Violation{Key: key, Detail: fmt.Sprintf(
			"%s\nstart state: %s\nshrunk history: %s\n%s\n%s",
			sp.label(), sp.startDesc(), histName(sp, h), v.detail, st.describe())})
	}
	visit := func(h []uint16, st state, opViol *vinfo) bool {
		if opViol != nil {
			report(h, opViol, st)
			return false
		}
		sum := sha1.Sum([]byte(st.canon()))
		var id [16]byte
		copy(id[:], sum[:16])
		if _, dup := visited[id]; dup {
			return false
		}
		visited[id] = struct{}{}
		res.states++
		res.maps[st.refDump()] = struct{}{}
		vs := st.oracle()
		for _, v := range vs {
			report(h, v, st)
		}
		return len(vs) == 0
	}

	// The start state itself is checked in every case so that a start state
	// that is already broken shows up under its own key (empty history).
	s0, _, _, _ := sp.exec(nil)
	for _, v := range s0.oracle() {
		key := fmt.Sprintf("%s clause=%s hist=", sp.label(), v.clause)
		if !seenKeys[key] {
			seenKeys[key] = true
			res.viols = append(res.viols, &core.Violation{Key: key, Detail: fmt.Sprintf("%s\nstart state: %s\n%s\n%s", sp.label(), sp.startDesc(), v.detail, s0.describe())})
		}
	}
	if len(res.viols) > 0 {
		return res // broken start state: nothing below it is explored
	}

	var frontier [][]uint16
	for _, first := range firsts {
		h0 := []uint16{first}
		st, en, ov, _ := sp.exec(h0)
		if !en {
			continue
		}
		res.trans++
		if visit(h0, st, ov) && depth > 1 {
			frontier = append(frontier, h0)
		}
	}
	if res.trans == 0 {
		return res
	}
	res.depthDone = 1
	n := sp.nOps()
	for d := 2; d <= depth && len(frontier) > 0; d++ {
		var next [][]uint16
		for fi, h := range frontier {
			if fi%16 == 0 && time.Now().After(until) {
				res.truncated = true
				return res
			}
			for oi := 0; oi < n; oi++ {
				h2 := make([]uint16, len(h)+1)
				copy(h2, h)
				h2[len(h)] = uint16(oi)
				st, en, ov, _ := sp.exec(h2)
				if !en {
					continue
				}
				res.trans++
				if visit(h2, st, ov) && d < depth {
					next = append(next, h2)
				}
			}
		}
		frontier = next
		res.depthDone = d
	}
	return res
}

func mapsSig(m map[string]struct{}) uint64 {
	ks := make([]string, 0, len(m))
	for k := range m {
		ks = append(ks, k)
	}
	sort.Strings(ks)
	return core.Hash64(strings.Join(ks, "\n"))
}
