package main

// Start states and key menus of the Go-level search.  A start state is a
// fixed sequence of Set calls on a fresh table; the menu is the set of keys
// (<= 12) operations draw their argument from.

import "fmt"

func sets(v int, roles ...string) []sop {
	out := make([]sop, len(roles))
	for i, r := range roles {
		out[i] = sop{r, v}
	}
	return out
}

func ints(from, to int) []string {
	var out []string
	if from <= to {
		for i := from; i <= to; i++ {
			out = append(out, fmt.Sprintf("i%d", i))
		}
	} else {
		for i := from; i >= to; i-- {
			out = append(out, fmt.Sprintf("i%d", i))
		}
	}
	return out
}

func cat(parts ...[]sop) []sop {
	var out []sop
	for _, p := range parts {
		out = append(out, p...)
	}
	return out
}

// Role strings of the string-only start states.  hh mod 16 / 32 / 64 is the
// primary slot in a hash part of that size.
var str8 = []string{"S01a", "S02a", "S03a", "S17a", "S04a", "S06a", "S07a", "S08a"}
var str9 = append(append([]string{}, str8...), "S09a")
var str16 = append(append([]string{}, str9...), "S10a", "S16a", "S33a", "S01b", "S05a", "S05b", "S00a")
var str17 = append(append([]string{}, str16...), "S11a")

func strN33() []string {
	var out []string
	for h := 0; h < 24; h++ {
		out = append(out, fmt.Sprintf("S%02da", h))
	}
	for h := 32; h < 38; h++ {
		out = append(out, fmt.Sprintf("S%02da", h))
	}
	out = append(out, "S01b", "S02b", "S24a")
	return out
}

var mix8 = cat(sets(1, ints(1, 4)...), sets(1, "S01a", "true", "f1.5", "T02a"))
var mix9 = cat(mix8, sets(1, "S03a"))
var mix16 = cat(sets(1, ints(1, 4)...), sets(1, "i-1", "S01a", "S17a", "true", "false", "f1.5", "T02a", "L05a", "D06a", "N07a", "S03a", "W44a"))
var mix17 = cat(mix16, sets(1, "S09a"))

func mixN33() []sop {
	out := cat(sets(1, ints(1, 8)...), sets(1, "i-1", "true", "false", "f1.5", "T02a", "L05a", "D06a", "N07a", "W44a", "i2^53", "P12a"))
	for h := 20; h < 34; h++ {
		out = append(out, sop{fmt.Sprintf("S%02da", h), 1})
	}
	return out
}

func allConfigs() []*config {
	var cs []*config
	add := func(c *config) { cs = append(cs, c) }

	// ---- from the empty table: small menus, deep
	add(&config{family: "go-empty", name: "empty/arr", menu: []string{"i1", "i2", "i3", "i4", "f2", "i5"}, depthQ: 4, depthT: 6})
	add(&config{family: "go-empty", name: "empty/zero", menu: []string{"i0", "f0", "f-0", "i-1", "i1", "f1"}, depthQ: 4, depthT: 6})
	add(&config{family: "go-empty", name: "empty/mix", menu: []string{"i1", "f1", "s:a", "true", "T02a", "f1.5"}, depthQ: 4, depthT: 6})
	add(&config{family: "go-empty", name: "empty/clo", menu: []string{"C40a", "C41a", "U42a", "U43a", "W44a", "W45a"}, depthQ: 4, depthT: 6})
	add(&config{family: "go-empty", name: "empty/str", menu: []string{"S01a", "S17a", "S05a", "S05b", "L05a", "s:"}, depthQ: 4, depthT: 6})
	add(&config{family: "go-empty", name: "empty/big", menu: []string{"i2^53", "f2^53", "i2^62", "f2^62", "f2^63", "imax", "imin", "f-2^63"}, depthQ: 4, depthT: 5})
	add(&config{family: "go-empty", name: "empty/wide", menu: []string{"i1", "i2", "i3", "f3", "i0", "i-1", "s:a", "s:abcdefgh", "true", "false", "f1.5", "G47a"}, depthQ: 3, depthT: 4})

	// narrow and deep: 5 keys, values nil/1 (the reachable state space nearly saturates)
	nv := []int{0, 1}
	add(&config{family: "go-deep", name: "deep/empty-arr", menu: []string{"i1", "i2", "i3", "i4", "f2"}, vals: nv, groups: 2, depthQ: 8, depthT: 12})
	add(&config{family: "go-deep", name: "deep/empty-mix", menu: []string{"i1", "s:a", "f1.5", "true", "T02a"}, vals: nv, groups: 2, depthQ: 8, depthT: 12})
	add(&config{family: "go-deep", name: "deep/int8", start: sets(1, ints(1, 8)...), menu: []string{"i7", "i8", "i9", "i10", "f9"}, vals: nv, groups: 2, depthQ: 7, depthT: 10})
	add(&config{family: "go-deep", name: "deep/str8", start: sets(1, str8...), menu: []string{"S05c", "S21a", "S01a", "S17a", "S15a"}, vals: nv, groups: 2, depthQ: 7, depthT: 10, note: "8 -> 16 slots, two new keys sharing primary slot 5"})
	add(&config{family: "go-deep", name: "deep/str16", start: sets(1, str16...), menu: []string{"S49a", "S01a", "S33a", "S01b", "S17a"}, vals: nv, groups: 2, depthQ: 7, depthT: 10, note: "16 -> 32 slots; S49a joins the chain of slot 1 in 16 and slot 17 in 32"})
	add(&config{family: "go-deep", name: "deep/mix9", start: mix9, menu: []string{"i4", "i5", "S01a", "f1.5", "S17a"}, vals: nv, groups: 2, depthQ: 7, depthT: 10})

	// ---- integer keys 1..n (array part growth)
	add(&config{family: "go-int", name: "int8", start: sets(1, ints(1, 8)...), menu: []string{"i1", "i4", "i8", "i9", "i10", "f8", "f9", "i-1", "i16", "s:a", "f1.5"}, depthQ: 3, depthT: 4})
	add(&config{family: "go-int", name: "int9", start: sets(1, ints(1, 9)...), menu: []string{"i1", "i8", "i9", "i10", "f9", "f10", "i16", "i17", "s:a", "i-1"}, depthQ: 3, depthT: 4})
	add(&config{family: "go-int", name: "int16", start: sets(1, ints(1, 16)...), menu: []string{"i1", "i8", "i15", "i16", "i17", "f16", "f17", "i-1", "i32", "s:a"}, depthQ: 3, depthT: 4})
	add(&config{family: "go-int", name: "int17", start: sets(1, ints(1, 17)...), menu: []string{"i16", "i17", "i18", "f17", "f18", "i1", "i32", "i33", "s:a", "i-1"}, depthQ: 3, depthT: 4})
	add(&config{family: "go-int", name: "int33", start: sets(1, ints(1, 33)...), menu: []string{"i32", "i33", "i34", "f33", "f34", "i1", "i16", "i64", "s:a", "i-1"}, depthQ: 3, depthT: 4})
	add(&config{family: "go-int", name: "desc8", start: sets(1, ints(8, 1)...), menu: []string{"i1", "i2", "i4", "i8", "i9", "f8", "i3", "s:a"}, depthQ: 3, depthT: 4, note: "8..1 inserted downwards: integer keys live in the hash part first"})
	add(&config{family: "go-int", name: "desc17", start: sets(1, ints(17, 1)...), menu: []string{"i1", "i16", "i17", "i18", "f17", "i8", "i9", "s:a"}, depthQ: 3, depthT: 4})
	add(&config{family: "go-int", name: "sparse", start: sets(1, "i1", "i2", "i4", "i8", "i16", "i32", "i3", "i64"), menu: []string{"i1", "i2", "i3", "i4", "i5", "i6", "i7", "i8", "f4", "i16"}, depthQ: 3, depthT: 4})
	add(&config{family: "go-int", name: "int4", start: sets(1, ints(1, 4)...), menu: []string{"i1", "i2", "i3", "i4", "i5", "f4", "f5", "i6"}, depthQ: 4, depthT: 5})
	add(&config{family: "go-int", name: "int3+zero", start: cat(sets(1, ints(1, 3)...), sets(1, "i0")), menu: []string{"i0", "f0", "i1", "i3", "i4", "i-1"}, depthQ: 3, depthT: 4, note: "probe 23: key 0 next to an array part"})

	// ---- role chosen strings (hash part only, fully determined layout)
	strMenu := []string{"S01a", "S17a", "S08a", "S05c", "S05d", "S21a", "S15a", "S14a", "S01c", "L05a", "i1"}
	add(&config{family: "go-str", name: "str8", start: sets(1, str8...), menu: strMenu, depthQ: 3, depthT: 4})
	add(&config{family: "go-str", name: "str9", start: sets(1, str9...), menu: strMenu, depthQ: 3, depthT: 4})
	add(&config{family: "go-str", name: "str16", start: sets(1, str16...), menu: []string{"S01a", "S17a", "S33a", "S01b", "S05a", "S05b", "S00a", "S16a", "S37a", "S21a", "S01c", "i1"}, depthQ: 3, depthT: 4})
	add(&config{family: "go-str", name: "str17", start: sets(1, str17...), menu: []string{"S01a", "S17a", "S33a", "S01b", "S05a", "S05b", "S31a", "S30a", "S37a", "S49a", "S01c", "i1"}, depthQ: 3, depthT: 4})
	add(&config{family: "go-str", name: "str33", start: sets(1, strN33()...), menu: []string{"S01a", "S33a", "S01b", "S02b", "S24a", "S63a", "S62a", "S01c", "S34a", "S02c", "i1"}, depthQ: 3, depthT: 4})
	add(&config{family: "go-str", name: "str9/chains", start: sets(1, str9...), menu: []string{"S05c", "S05d", "S05e", "S15a", "S14a", "S21a"}, depthQ: 5, depthT: 6, note: "three keys sharing a fresh primary slot, keys whose primary slots are the relocation targets"})
	add(&config{family: "go-str", name: "str16/grow", start: sets(1, str16...), menu: []string{"S01a", "S33a", "S01b", "S49a", "S12a", "S01c"}, depthQ: 4, depthT: 5})

	// ---- mixed key kinds, array + hash part
	add(&config{family: "go-mix", name: "mix8", start: mix8, menu: []string{"i1", "i4", "i5", "f4", "S01a", "true", "f1.5", "T02a", "S03a", "false", "T03a"}, depthQ: 3, depthT: 4})
	add(&config{family: "go-mix", name: "mix9", start: mix9, menu: []string{"i1", "i4", "i5", "f5", "S01a", "true", "f1.5", "T02a", "S03a", "S17a", "i-1"}, depthQ: 3, depthT: 4})
	add(&config{family: "go-mix", name: "mix16", start: mix16, menu: []string{"i4", "i5", "f5", "i-1", "f-1", "S01a", "S17a", "true", "T02a", "D06a", "W44a", "S33a"}, depthQ: 3, depthT: 4})
	add(&config{family: "go-mix", name: "mix17", start: mix17, menu: []string{"i4", "i5", "f5", "i-1", "S01a", "S17a", "false", "T02a", "L05a", "N07a", "S09a", "S33a"}, depthQ: 3, depthT: 4})
	add(&config{family: "go-mix", name: "mix33", start: mixN33(), menu: []string{"i8", "i9", "f9", "i-1", "S20a", "S33a", "true", "T02a", "i2^53", "f2^53", "P12a", "S52a"}, depthQ: 3, depthT: 4})

	// ---- start states with tombstones (cleared keys that still occupy slots)
	add(&config{family: "go-tomb", name: "str8/tomb", start: cat(sets(1, str8...), sets(0, "S03a", "S06a")), menu: []string{"S03a", "S06a", "S01a", "S17a", "S05c", "S21a", "S15a", "i1"}, depthQ: 3, depthT: 5})
	add(&config{family: "go-tomb", name: "str9/tomb", start: cat(sets(1, str9...), sets(0, "S17a", "S04a")), menu: []string{"S17a", "S04a", "S01a", "S01c", "S05c", "S05d", "S15a", "S20a", "i1"}, depthQ: 3, depthT: 5})
	add(&config{family: "go-tomb", name: "str16/tomb", start: cat(sets(1, str16...), sets(0, "S02a", "S17a", "S05b")), menu: []string{"S02a", "S17a", "S05b", "S01a", "S33a", "S01b", "S05a", "S37a", "S01c", "i1"}, depthQ: 3, depthT: 4})
	add(&config{family: "go-tomb", name: "str33/tomb", start: cat(sets(1, strN33()...), sets(0, "S01a", "S33a", "S24a", "S10a")), menu: []string{"S01a", "S33a", "S24a", "S01b", "S02b", "S63a", "S01c", "i1"}, depthQ: 3, depthT: 4})
	add(&config{family: "go-tomb", name: "int9/tomb", start: cat(sets(1, ints(1, 9)...), sets(0, "i8", "i9")), menu: []string{"i7", "i8", "i9", "i10", "f8", "f9", "i1", "s:a"}, depthQ: 3, depthT: 5})
	add(&config{family: "go-tomb", name: "int16/tomb", start: cat(sets(1, ints(1, 16)...), sets(0, "i16", "i15", "i3")), menu: []string{"i14", "i15", "i16", "i17", "i3", "f3", "f16", "i1", "s:a"}, depthQ: 3, depthT: 4})
	add(&config{family: "go-tomb", name: "mix16/tomb", start: cat(mix16, sets(0, "i4", "S17a", "true", "T02a")), menu: []string{"i3", "i4", "i5", "f4", "S17a", "S01a", "true", "T02a", "S33a", "W44a"}, depthQ: 3, depthT: 4})
	add(&config{family: "go-tomb", name: "mix33/tomb", start: cat(mixN33(), sets(0, "i8", "i7", "S20a", "true", "i2^53")), menu: []string{"i6", "i7", "i8", "i9", "f8", "S20a", "S21a", "true", "i2^53", "f2^53"}, depthQ: 3, depthT: 4})

	// ---- function keys in hashed tables (value equality vs key equality)
	add(&config{family: "go-clo", name: "clo9", start: cat(sets(1, str8...), sets(1, "C40a")), menu: []string{"C40a", "C41a", "C40b", "S01a", "S15a"}, depthQ: 3, depthT: 4, note: "probe 7: closures of one prototype without upvalues"})
	add(&config{family: "go-clo", name: "upv9", start: cat(sets(1, str8...), sets(1, "U42a")), menu: []string{"U42a", "U43a", "U42b", "S01a", "S15a"}, depthQ: 3, depthT: 4})
	add(&config{family: "go-clo", name: "fun9", start: cat(sets(1, str8...), sets(1, "W44a", "X46a", "G47a")), menu: []string{"W44a", "W45a", "W44b", "X46a", "X46b", "G47a", "G47b", "S01a"}, depthQ: 3, depthT: 4, note: "functions that must be distinct keys"})

	for _, c := range cs {
		c.buildOps()
	}
	return cs
}
