package main

import (
	"fmt"
	"regexp"
	"strings"

	rt "github.com/arnodel/golua/runtime"

	"verif/engine/core"
	"verif/engine/host"
)

// The overflow family: runaway recursion through a re-entrant call (a Go
// library function or a metamethod calling back into Lua) ends in an error
// that a protected call catches; afterwards the runtime must be in the state
// it was in before.  The depth at which the implementation gives up is its own
// business, so the oracle is differential: a dive made after k caught
// overflows must reach the depth, and deliver the message, of the same dive
// made first in a fresh runtime; normal re-entrant calls work in between; and
// the thread's bookkeeping (host.Machine.EndState) is at rest at the end.

// vehicles: each defines dive(), which recurses until the implementation
// raises, catches that error and returns the number of levels entered and the
// error value.
var vehicles = []struct{ name, def string }{
	{"pcall", `
local function dive()
  local n, msg = 0
  local function r()
    n = n + 1
    local ok, e = pcall(r)
    if not ok and msg == nil then msg = e end
  end
  CATCH(r)
  return n, msg
end`},
	{"index", `
local function dive()
  local n = 0
  local t = setmetatable({}, {__index = function(t, k) n = n + 1; return t[k] end})
  local ok, e = CATCH(function() return t.x end)
  return n, e
end`},
	{"sort", `
local function dive()
  local n = 0
  local function cmp(a, b) n = n + 1; table.sort({2, 1}, cmp); return a < b end
  local ok, e = CATCH(function() table.sort({2, 1}, cmp) end)
  return n, e
end`},
	{"tostring", `
local function dive()
  local n = 0
  local o = setmetatable({}, {__tostring = function(o) n = n + 1; return tostring(o) end})
  local ok, e = CATCH(function() return tostring(o) end)
  return n, e
end`},
	{"gsub", `
local function dive()
  local n = 0
  local function f() n = n + 1; return (string.gsub("a", "a", f)) end
  local ok, e = CATCH(f)
  return n, e
end`},
	{"close", `
local function dive()
  local n = 0
  local function r()
    n = n + 1
    local c <close> = setmetatable({}, {__close = function() end})
    local ok, e = pcall(r)
    if not ok then error(e, 0) end
  end
  local ok, e = CATCH(r)
  return n, e
end`},
	{"concat", `
local function dive()
  local n = 0
  local mt = {}
  local o = setmetatable({}, mt)
  mt.__concat = function(a, b) n = n + 1; return o .. "x" end
  local ok, e = CATCH(function() return o .. "x" end)
  return n, e
end`},
	{"plain", `
local function dive()
  local n = 0
  local function r() n = n + 1; if n < 3000 then return 1 + r() end; return 0 end
  local ok, e = CATCH(r)
  return n, e
end`},
}

var catchers = []struct{ name, def string }{
	{"pcall", `local CATCH = pcall`},
	{"xpcall", `local function CATCH(f) return xpcall(f, function(e) return e end) end`},
	{"coroutine", `local function CATCH(f) return coroutine.resume(coroutine.create(f)) end`},
	{"wrap-in-pcall", `local function CATCH(f) return pcall(coroutine.wrap(f)) end`},
}

// between dives: ordinary re-entrant calls at shallow depth
const overflowProbe = `
do
  local t = {3, 1, 2}
  table.sort(t, function(a, b) return a < b end)
  local ok, v = pcall(function() return t[1] .. t[2] .. t[3] end)
  emit("probe", ok, v, tostring(setmetatable({}, {__tostring = function() return "ts" end})), (string.gsub("ab", "a", function() return "x" end)))
end`

func overflowProgram(seq []int, catcher int, standalone bool) string {
	var sb strings.Builder
	sb.WriteString(catchers[catcher].def)
	sb.WriteString("\n")
	for k, v := range seq {
		sb.WriteString("do")
		sb.WriteString(vehicles[v].def)
		fmt.Fprintf(&sb, "\n  local n, e = dive()\n  emit(\"dive\", %d, n, e)\nend", k+1)
		sb.WriteString(overflowProbe)
		sb.WriteString("\n")
	}
	return sb.String()
}

func overflowSeq(i uint64, maxLen int) (seq []int, catcher int) {
	nV := uint64(len(vehicles))
	catcher = int(i % uint64(len(catchers)))
	i /= uint64(len(catchers))
	p := nV
	l := 1
	for i >= p {
		i -= p
		p *= nV
		l++
	}
	seq = make([]int, l)
	for k := l - 1; k >= 0; k-- {
		seq[k] = int(i % nV)
		i /= nV
	}
	return
}

func overflowSize(maxLen int) uint64 {
	var n, p uint64 = 0, 1
	for l := 1; l <= maxLen; l++ {
		p *= uint64(len(vehicles))
		n += p
	}
	return n * uint64(len(catchers))
}

var posRe = regexp.MustCompile(`chunk:[0-9]+:`)

// diveOf extracts the "dive" events of a trace, without their ordinal.
func diveOf(trace []string) (dives, probes []string) {
	for _, e := range trace {
		switch {
		case strings.HasPrefix(e, `s:"dive",`):
			rest := e[len(`s:"dive",`):]
			if k := strings.Index(rest, ","); k >= 0 {
				rest = rest[k+1:]
			}
			// positions differ between a sequence and the dive alone
			dives = append(dives, posRe.ReplaceAllString(rest, "chunk:?:"))
		case strings.HasPrefix(e, `s:"probe",`):
			probes = append(probes, e)
		}
	}
	return
}

func runOverflow(src string, hostMode string) (host.Obs, string) {
	m := host.NewMachine(false)
	defer m.Close()
	def := &rt.RuntimeContextDef{}
	if hostMode == "call" {
		def = nil
	}
	o := m.Exec(chunkName, src, nil, def)
	o.Trace = append([]string{}, o.Trace...)
	return o, m.EndState(def != nil)
}

func overflowFamily(tier string) *core.Family {
	maxLen := 2
	if tier == "thorough" {
		maxLen = 3
	}
	const wantProbe = `s:"probe",true,s:"123",s:"ts",s:"xb"`
	return &core.Family{
		Name: "overflow", Size: overflowSize(maxLen), HangSeconds: 120, BudgetSeconds: 120,
		Run: func(i uint64) core.Outcome {
			seq, c := overflowSeq(i, maxLen)
			hostMode := []string{"context", "call"}[(i/uint64(len(catchers)))%2]
			src := overflowProgram(seq, c, false)
			got, end := runOverflow(src, hostMode)
			out := core.Outcome{NonTrivial: true, Sig: core.Hash64(got.String() + end)}
			key := func(clause string) string {
				var names []string
				for _, v := range seq {
					names = append(names, vehicles[v].name)
				}
				return fmt.Sprintf("overflow seq=[%s] catch=%s clause=%s", strings.Join(names, ","), catchers[c].name, clause)
			}
			fail := func(clause, detail string) {
				out.Viols = append(out.Viols, &core.Violation{Key: key(clause), Detail: detail + "\nhost call: " + hostMode + "\nobserved: " + got.String() + "\nprogram:\n" + numbered([]string{src})})
			}
			if got.Status != "ok" {
				fail("status", "the chunk catches every error it provokes, yet the host call ended with status "+got.Status+" "+got.Err)
				return out
			}
			dives, probes := diveOf(got.Trace)
			if len(dives) != len(seq) || len(probes) != len(seq) {
				fail("trace", fmt.Sprintf("%d dives and %d probes reported, expected %d each", len(dives), len(probes), len(seq)))
				return out
			}
			for k, p := range probes {
				if p != wantProbe {
					fail("probe", fmt.Sprintf("after dive %d ordinary re-entrant calls give %s, expected %s", k+1, p, wantProbe))
					return out
				}
			}
			// the differential oracle: dive k of the sequence against the same
			// dive made first in a fresh runtime
			for k, v := range seq {
				if k == 0 {
					continue
				}
				alone, _ := runOverflow(overflowProgram([]int{v}, c, true), hostMode)
				ad, _ := diveOf(alone.Trace)
				if alone.Status != "ok" || len(ad) != 1 {
					continue // reported by the case of length 1
				}
				if ad[0] != dives[k] {
					fail("depth-after-caught-overflow", fmt.Sprintf("dive %d (%s) made after %d caught overflow(s) reports (levels, error) = %s; made first in a fresh runtime it reports %s", k+1, vehicles[v].name, k, dives[k], ad[0]))
					return out
				}
			}
			if end != "" {
				fail("end-state", "after the host call returned the main thread is not at rest: "+end)
			}
			return out
		},
		Show: func(i uint64) string {
			seq, c := overflowSeq(i, maxLen)
			return numbered([]string{overflowProgram(seq, c, false)})
		},
	}
}
