package main

import (
	"fmt"
	"strings"
)

// ---------------------------------------------------------------- results family
//
// No error: the protected call returns true plus ALL results of the function
// (coroutine.resume likewise, coroutine.wrap the results themselves, the
// embedding caller the results of the chunk).

type resultBody struct {
	name   string
	body   string
	closes bool
	args   []string // argument lists passed by the catch structure ("" = none)
}

var resultBodies = []resultBody{
	{name: "return-nothing", body: "bump()\nreturn"},
	{name: "fall-off-end", body: "bump()"},
	{name: "one", body: "return 1"},
	{name: "two", body: "return 1, 2"},
	{name: "nil", body: "return nil"},
	{name: "trailing-nil", body: "return 1, nil"},
	{name: "three-nils", body: "return nil, nil, nil"},
	{name: "false-first", body: "return false, \"x\""},
	{name: "twelve", body: "return 1, 2, 3, 4, 5, 6, 7, 8, 9, 10, 11, 12"},
	{name: "multi-call", body: "return id(1, 2, 3)"},
	{name: "paren-call", body: "return (id(1, 2, 3))"},
	{name: "value-twice", body: "return V, V"},
	{name: "close-scope", body: "local c1 <close> = closer(\"c1\")\nreturn 1, 2", closes: true},
	{name: "varargs", body: "return select(\"#\", ...), ...", args: []string{"", ", 1", ", 1, nil, 3", ", nil, nil"}},
	{name: "inner-caught", body: "local ok, e = pcall(error, V)\nemit(\"inner-caught\", ok)\nreturn \"after\", e"},
}

func resultsCases(tier string) []gcase {
	var out []gcase
	v := value{"tab", `{"payload"}`}
	for _, rb := range resultBodies {
		rb := rb
		args := rb.args
		if args == nil {
			args = []string{""}
		}
		for ai, a := range args {
			for _, c := range catches {
				if strings.Contains(a, ",") && !strings.Contains(c.code, "<A>") && c.host == "" {
					continue // this catch structure passes no arguments
				}
				if c.name == "wrap-yield-in-pcall" && a != "" {
					continue
				}
				pos := position{name: rb.name, closes: rb.closes, body: func(string) string { return rb.body }}
				g, ok := build0(raise{name: "none"}, v, []position{pos}, c, a, true)
				if !ok {
					continue
				}
				g.key = fmt.Sprintf("results=%s args=%d catch=%s", rb.name, ai, c.name)
				out = append(out, g)
			}
		}
	}
	return out
}

// ---------------------------------------------------------------- interleave family
//
// A protected call is entered inside a coroutine which then yields: while it
// is suspended there, errors of the main thread must reach the main thread's
// own nearest protected call (and only its message handler); when the
// coroutine is resumed, its errors reach its own protected call.

type boundary struct {
	name string
	call func(f, tag string) string // protected call expression of function expression f
	defs func(tag string) string
}

var boundaries = []boundary{
	{name: "pcall", call: func(f, tag string) string { return "pcall(" + f + ")" }, defs: func(string) string { return "" }},
	{name: "xpcall-identity", call: func(f, tag string) string { return "xpcall(" + f + ", h" + tag + ")" },
		defs: func(tag string) string {
			return "local function h" + tag + "(m)\nemit(\"h" + tag + "\", m)\nreturn m\nend\n"
		}},
	{name: "xpcall-wraps", call: func(f, tag string) string { return "xpcall(" + f + ", h" + tag + ")" },
		defs: func(tag string) string {
			return "local function h" + tag + "(m)\nlocal w = {wrapped = m}\nemit(\"h" + tag + "\", m, w)\nreturn w\nend\n"
		}},
}

func show(tag string) string { return "emit(\"" + tag + "\", r.n, table.unpack(r, 1, r.n))\n" }

type scenario struct {
	name string
	text func(pa, pb func(f string) string) string
}

var scenarios = []scenario{
	{"main-raises-while-co-suspended-in-A", func(pa, pb func(string) string) string {
		return "local co = coroutine.wrap(function()\nlocal r = table.pack(" + pa("function()\ncoroutine.yield(\"y1\")\nerror(V)\nend") + ")\n" + show("A") + "return \"co-done\"\nend)\n" +
			"emit(\"w1\", co())\n" +
			"local r = table.pack(" + pb("function()\nerror(W)\nend") + ")\n" + show("B") +
			"emit(\"w2\", co())\n"
	}},
	{"co-leaves-A-while-main-in-B", func(pa, pb func(string) string) string {
		return "local co = coroutine.wrap(function()\nlocal r = table.pack(" + pa("function()\ncoroutine.yield(\"y1\")\nreturn \"a-done\"\nend") + ")\n" + show("A") + "coroutine.yield(\"y2\")\nreturn \"co-done\"\nend)\n" +
			"emit(\"w1\", co())\n" +
			"local r = table.pack(" + pb("function()\nemit(\"w2\", co())\nerror(W)\nend") + ")\n" + show("B") +
			"emit(\"w3\", co())\n"
	}},
	{"co-raises-in-A-then-dies-while-main-in-B", func(pa, pb func(string) string) string {
		return "local co = coroutine.create(function()\nlocal r = table.pack(" + pa("function()\ncoroutine.yield(\"y1\")\nerror(V)\nend") + ")\n" + show("A") + "error(V2)\nend)\n" +
			"emit(\"r1\", coroutine.resume(co))\n" +
			"local r = table.pack(" + pb("function()\nemit(\"r2\", coroutine.resume(co))\nerror(W)\nend") + ")\n" + show("B") +
			"emit(\"st\", coroutine.status(co))\n"
	}},
	{"co-yields-again-in-A-while-main-in-B", func(pa, pb func(string) string) string {
		return "local co = coroutine.wrap(function()\nlocal r = table.pack(" + pa("function()\ncoroutine.yield(\"y1\")\ncoroutine.yield(\"y2\")\nerror(V)\nend") + ")\n" + show("A") + "return \"co-done\"\nend)\n" +
			"emit(\"w1\", co())\n" +
			"local r = table.pack(" + pb("function()\nemit(\"w2\", co())\nerror(W)\nend") + ")\n" + show("B") +
			"emit(\"w3\", co())\n"
	}},
	{"B-returns-while-co-suspended-in-A", func(pa, pb func(string) string) string {
		return "local co\nlocal r = table.pack(" + pb("function()\nco = coroutine.wrap(function()\nlocal r = table.pack("+pa("function()\ncoroutine.yield(\"y1\")\nerror(V)\nend")+")\n"+show("A")+"return \"co-done\"\nend)\nemit(\"w1\", co())\nreturn \"b-done\"\nend") + ")\n" + show("B") +
			"r = table.pack(pcall(function()\nerror(W)\nend))\n" + show("P") +
			"emit(\"w2\", co())\n"
	}},
	{"co-created-in-B-raises-after-B-returned", func(pa, pb func(string) string) string {
		return "local co\nlocal r = table.pack(" + pb("function()\nco = coroutine.create(function()\ncoroutine.yield(\"y1\")\nerror(V)\nend)\nemit(\"r1\", coroutine.resume(co))\nreturn \"b-done\"\nend") + ")\n" + show("B") +
			"r = table.pack(" + pa("function()\nemit(\"r2\", coroutine.resume(co))\nerror(W)\nend") + ")\n" + show("A") +
			"emit(\"st\", coroutine.status(co))\n"
	}},
}

func interleaveCases(tier string) []gcase {
	var out []gcase
	vals := []struct{ name, v, v2, w string }{
		{"tab", `{"v"}`, `{"v2"}`, `{"w"}`},
		{"str", `"v"`, `"v2"`, `"w"`},
	}
	for _, sc := range scenarios {
		for _, a := range boundaries {
			for _, b := range boundaries {
				for _, vv := range vals {
					a, b := a, b
					var sb strings.Builder
					sb.WriteString("local V = " + vv.v + "\n")
					sb.WriteString(prelude)
					sb.WriteString("local V2 = " + vv.v2 + "\nlocal W = " + vv.w + "\nemit(\"V2W\", V2, W)\n")
					sb.WriteString(a.defs("A"))
					sb.WriteString(b.defs("B"))
					sb.WriteString("local function site()\nbump()\nerror(V)\nend\n")
					sb.WriteString(sc.text(func(f string) string { return a.call(f, "A") }, func(f string) string { return b.call(f, "B") }))
					sb.WriteString("EP(site, bump, getcnt)\n")
					out = append(out, gcase{
						key:    fmt.Sprintf("scenario=%s A=%s B=%s v=%s", sc.name, a.name, b.name, vv.name),
						chunks: []string{strings.ReplaceAll(sb.String(), "<A>", "")},
						host:   "ctx",
					})
				}
			}
		}
	}
	return out
}

// ---------------------------------------------------------------- misc family
//
// Hand-written programs around the protected-call functions themselves.

type miscProg struct{ name, text string }

var miscProgs = []miscProg{
	{"pcall-no-args", "local r = table.pack(pcall(function()\nlocal r = pcall()\nemit(\"unreached\")\nend))\n" + packShow},
	{"pcall-nil", "local r = table.pack(pcall(NILV))\n" + packShow},
	{"pcall-number", "local r = table.pack(pcall(42, 1))\n" + packShow},
	{"pcall-table", "local r = table.pack(pcall(TBL))\n" + packShow},
	{"pcall-callable-table", "local ct = setmetatable({}, {__call = function(self, a)\nerror(V)\nend})\nlocal r = table.pack(pcall(ct, 1))\n" + packShow},
	{"pcall-error-function", "local r = table.pack(pcall(error, V))\n" + packShow},
	{"pcall-error-function-novalue", "local r = table.pack(pcall(error))\n" + packShow},
	{"xpcall-no-handler", "local r = table.pack(pcall(function()\nlocal r = xpcall(site)\nemit(\"unreached\")\nend))\n" + packShow},
	{"xpcall-nil-function", hIdentity + "local r = table.pack(xpcall(NILV, h))\n" + packShow},
	{"xpcall-table-function", hIdentity + "local r = table.pack(xpcall(TBL, h, 1))\n" + packShow},
	{"xpcall-error-function", hIdentity + "local r = table.pack(xpcall(error, h, V))\n" + packShow},
	{"xpcall-args", hIdentity + "local r = table.pack(xpcall(function(a, b, c)\nemit(\"args\", a, b, c)\nerror(V)\nend, h, 1, nil, 3))\n" + packShow},
	{"handler-uses-pcall", "local function h(m)\nlocal ok, e = pcall(function()\nerror(W)\nend)\nemit(\"h\", m, ok, e)\nreturn m\nend\nlocal r = table.pack(xpcall(site, h))\n" + packShow},
	{"handler-uses-xpcall", "local function h2(m)\nemit(\"h2\", m)\nreturn m\nend\nlocal function h(m)\nlocal ok, e = xpcall(function()\nerror(W)\nend, h2)\nemit(\"h\", m, ok, e)\nreturn m\nend\nlocal r = table.pack(xpcall(site, h))\n" + packShow},
	{"handler-returns-many", "local function h(m)\nemit(\"h\", m)\nreturn m, 2, 3\nend\nlocal r = table.pack(xpcall(site, h))\n" + packShow},
	{"reraise-same-table", "local r = table.pack(pcall(function()\nlocal ok, e = pcall(site)\nemit(\"inner\", ok, e)\nerror(e)\nend))\n" + packShow},
	{"reraise-string-level0", "local r = table.pack(pcall(function()\nlocal ok, e = pcall(function()\nerror(\"m\")\nend)\nemit(\"inner\", ok, e)\nerror(e, 0)\nend))\n" + packShow},
	{"error-level-nil", "local r = table.pack(pcall(function()\nerror(\"m\", nil)\nend))\n" + packShow},
	{"error-after-caught-error", "local r = table.pack(pcall(function()\npcall(site)\npcall(site)\nerror(W)\nend))\n" + packShow},
	{"wrap-dead-call", "local w = coroutine.wrap(function()\nreturn 1\nend)\nemit(\"w\", w())\nlocal r = table.pack(pcall(w))\n" + packShow},
	{"resume-dead", "local co = coroutine.create(site)\nemit(\"r1\", coroutine.resume(co))\nlocal r = table.pack(coroutine.resume(co))\n" + packShow + "\nemit(\"st\", coroutine.status(co))"},
	{"yield-across-pcall-then-error", "local w = coroutine.wrap(function()\nlocal r = table.pack(pcall(function()\nlocal x = coroutine.yield(1)\nerror(x)\nend))\nemit(\"in-co\", r.n, table.unpack(r, 1, r.n))\nreturn \"co-done\"\nend)\nemit(\"w1\", w())\nemit(\"w2\", w(V))\nlocal r = table.pack(pcall(site))\n" + packShow},
	{"yield-across-xpcall-then-error", hIdentity + "local w = coroutine.wrap(function()\nlocal r = table.pack(xpcall(function()\nlocal x = coroutine.yield(1)\nerror(x)\nend, h))\nemit(\"in-co\", r.n, table.unpack(r, 1, r.n))\nreturn \"co-done\"\nend)\nemit(\"w1\", w())\nemit(\"w2\", w(V))\nlocal r = table.pack(pcall(site))\n" + packShow},
	{"error-in-nested-coroutines", "local outer = coroutine.wrap(function()\nlocal inner = coroutine.create(site)\nlocal ok, e = coroutine.resume(inner)\nemit(\"inner\", ok, e, coroutine.status(inner))\ncoroutine.yield(\"y\")\nerror(e)\nend)\nemit(\"o1\", outer())\nlocal r = table.pack(pcall(outer))\n" + packShow},
	{"many-errors-in-loop", "local n = 0\nfor i = 1, 150 do\nlocal ok, e = pcall(site)\nif not ok and e == V then\nn = n + 1\nend\nend\nemit(\"n\", n)\nlocal r = table.pack(pcall(site))\n" + packShow},
	{"many-xpcall-errors-in-loop", "local n = 0\nlocal function hq(m)\nn = n + 1\nreturn m\nend\nfor i = 1, 150 do\nxpcall(site, hq)\nend\nemit(\"n\", n)\nlocal r = table.pack(pcall(site))\n" + packShow},
	{"nested-pcall-depth-12", "local function nest(d)\nif d == 0 then\nerror(V)\nend\nlocal ok, e = pcall(nest, d - 1)\nemit(\"lvl\", d, ok, e)\nerror(e)\nend\nlocal r = table.pack(pcall(nest, 12))\n" + packShow},
	{"nested-pcall-depth-110", "local function nest(d)\nif d == 0 then\nerror(V)\nend\nlocal ok, e = pcall(nest, d - 1)\nif d % 50 == 0 then\nemit(\"lvl\", d, ok, e)\nend\nerror(e)\nend\nlocal r = table.pack(pcall(nest, 110))\n" + packShow},
	{"method-on-string-nil", "local r = table.pack(pcall(function()\nlocal s = \"x\"\nlocal y = s:nomethod()\nend))\n" + packShow},
	{"error-in-upvalue-closure-called-later", "local function mk()\nlocal k = 0\nreturn function()\nk = k + 1\nif k == 2 then\nerror(V)\nend\nreturn k\nend\nend\nlocal f = mk()\nemit(\"f1\", pcall(f))\nemit(\"f2\", pcall(f))\nemit(\"f3\", pcall(f))\nlocal r = table.pack(pcall(site))\n" + packShow},
}

func miscCases(tier string) []gcase {
	var out []gcase
	vals := []struct{ name, v, w string }{
		{"tab", `{"v"}`, `{"w"}`},
		{"str", `"v"`, `"w"`},
	}
	for _, mp := range miscProgs {
		for _, vv := range vals {
			var sb strings.Builder
			sb.WriteString("local V = " + vv.v + "\n")
			sb.WriteString(prelude)
			sb.WriteString("local W = " + vv.w + "\nemit(\"W\", W)\n")
			sb.WriteString("local function site()\nbump()\nerror(V)\nend\n")
			sb.WriteString(mp.text + "\n")
			sb.WriteString("EP(site, bump, getcnt)\n")
			out = append(out, gcase{
				key:    fmt.Sprintf("prog=%s v=%s", mp.name, vv.name),
				chunks: []string{strings.ReplaceAll(sb.String(), "<A>", "")},
				host:   "ctx",
			})
		}
	}
	return out
}
