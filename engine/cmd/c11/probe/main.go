// probe: development helper for C11 — parses a Lua file with prog.Parse, runs
// the reference (extended error model) and golua (plain rendering, empty
// context) and prints both observations and the comparison.  Not used by the
// check.
package main

import (
	"fmt"
	"os"
	"strings"

	rt "github.com/arnodel/golua/runtime"

	"verif/engine/host"
	"verif/engine/prog"
	"verif/engine/reflua"
)

func main() {
	for _, f := range os.Args[1:] {
		b, err := os.ReadFile(f)
		if err != nil {
			fmt.Println(err)
			continue
		}
		p, err := prog.Parse(string(b))
		if err != nil {
			fmt.Println(err)
			continue
		}
		ref := reflua.RunOpts(p, nil, reflua.Options{MaxSteps: 200000, MaxDepth: 200, Ext: reflua.Ext{CloseErrHandled: true, HandlerErrAny: true}})
		src, spans := prog.Render(p, prog.Plain)
		m := host.NewMachine(false)
		got := m.Exec("chunk", src, nil, &rt.RuntimeContextDef{})
		m.Close()
		lines := strings.Split(src, "\n")
		for i, l := range lines {
			fmt.Printf("%3d  %s\n", i+1, l)
		}
		fmt.Printf("ref:   status=%s results=%v err=%s unspec=%q diverge=%v\n", ref.Status, ref.Results, ref.Err, ref.Unspec, ref.Diverge)
		for i, t := range ref.Trace {
			fmt.Printf("  r[%d] %s\n", i, t)
		}
		fmt.Printf("golua: %s\n", got.Status+" "+strings.Join(got.Results, ",")+" "+got.Err)
		for i, t := range got.Trace {
			fmt.Printf("  g[%d] %s\n", i, t)
		}
		lf := func(node int) (int, bool) {
			sp, ok := spans[node]
			if !ok {
				return 0, false
			}
			return sp.First, sp.First == sp.Last
		}
		mt := reflua.Matcher{Chunk: "chunk", Lines: lf, RTLines: lf}
		fmt.Printf("compare: %q\n", mt.Compare(ref, reflua.Observed{Trace: got.Trace, Status: got.Status, Results: got.Results, Err: got.Err}))
	}
}
