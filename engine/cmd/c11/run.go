package main

import (
	"fmt"
	"os"
	"regexp"
	goruntime "runtime"
	"strings"
	"sync"

	"github.com/arnodel/golua/code"
	rt "github.com/arnodel/golua/runtime"

	"verif/engine/core"
	"verif/engine/host"
	"verif/engine/prog"
	"verif/engine/reflua"
)

const chunkName = "chunk"

var refOpts = reflua.Options{MaxSteps: 400000, MaxDepth: 400, Ext: reflua.Ext{CloseErrHandled: true, HandlerErrAny: true}}

func stylesFor(tier string, i uint64) []prog.Style {
	if tier == "thorough" {
		return []prog.Style{prog.Plain, prog.Parens, prog.OneLine, prog.TokLine, prog.AltLit, prog.CRLF}
	}
	return []prog.Style{prog.Plain, prog.Style(1 + i%uint64(prog.NStyles-1))}
}

// headerNodes collects the statements whose faulting operation sits on the
// line of their first token although the statement spans several lines
// (numeric and generic for: the loop preparation / the iterator call).
func headerNodes(body []prog.Stmt, out map[int]bool) {
	var ex func(e prog.Expr)
	var st func(s prog.Stmt)
	exs := func(es []prog.Expr) {
		for _, e := range es {
			ex(e)
		}
	}
	ex = func(e prog.Expr) {
		switch x := e.(type) {
		case *prog.Func:
			headerNodes(x.Body, out)
		case *prog.Call:
			ex(x.Fn)
			exs(x.Args)
		case *prog.Method:
			ex(x.Obj)
			exs(x.Args)
		case *prog.Index:
			ex(x.Obj)
			ex(x.Key)
		case *prog.Bin:
			ex(x.L)
			ex(x.R)
		case *prog.Un:
			ex(x.E)
		case *prog.Paren:
			ex(x.E)
		case *prog.TableC:
			for _, f := range x.Fields {
				if f.Key != nil {
					ex(f.Key)
				}
				ex(f.Val)
			}
		}
	}
	st = func(s prog.Stmt) {
		switch x := s.(type) {
		case *prog.Local:
			exs(x.Exprs)
		case *prog.Assign:
			exs(x.Targets)
			exs(x.Exprs)
		case *prog.CallStat:
			ex(x.Call)
		case *prog.Do:
			headerNodes(x.Body, out)
		case *prog.While:
			ex(x.Cond)
			headerNodes(x.Body, out)
		case *prog.Repeat:
			headerNodes(x.Body, out)
			ex(x.Cond)
		case *prog.If:
			exs(x.Conds)
			for _, b := range x.Blocks {
				headerNodes(b, out)
			}
			headerNodes(x.Else, out)
		case *prog.NumFor:
			out[x.ID] = true
			ex(x.Start)
			ex(x.Stop)
			if x.Step != nil {
				ex(x.Step)
			}
			headerNodes(x.Body, out)
		case *prog.GenFor:
			out[x.ID] = true
			exs(x.Exprs)
			headerNodes(x.Body, out)
		case *prog.LocalFunc:
			headerNodes(x.F.Body, out)
		case *prog.FuncStat:
			headerNodes(x.F.Body, out)
		case *prog.Return:
			exs(x.Exprs)
		}
	}
	for _, s := range body {
		st(s)
	}
}

// The epilogue chunk: parsed once (node ids above epBase), rendered once in
// the plain style, compiled once by golua and loaded into every runtime.
const epBase = 1000000

var ep struct {
	once    sync.Once
	prog    *prog.Prog
	spans   map[int]*prog.Span
	headers map[int]bool
	src     string
	unit    *code.Unit
}

func epInit() {
	ep.once.Do(func() {
		p, err := prog.ParseBase(epilogue, epBase)
		if err != nil {
			panic(err)
		}
		ep.prog = p
		ep.src, ep.spans = prog.Render(p, prog.Plain)
		ep.headers = map[int]bool{}
		headerNodes(p.Body, ep.headers)
		r := rt.New(nil)
		goruntime.SetFinalizer(r, nil)
		unit, _, err := r.CompileLuaChunk(chunkName, []byte(ep.src))
		if err != nil {
			panic(fmt.Sprintf("c11: the epilogue chunk does not compile: %v", err))
		}
		ep.unit = unit
	})
}

func lineFn(spans map[int]*prog.Span, st prog.Style, headers map[int]bool) reflua.LineFn {
	return func(node int) (int, bool) {
		if node > epBase {
			sp, ok := ep.spans[node]
			if !ok {
				return 0, false
			}
			return sp.First, sp.First == sp.Last || ep.headers[node]
		}
		sp, ok := spans[node]
		if !ok {
			return 0, false
		}
		return sp.First, st.LinesExact() && (sp.First == sp.Last || headers[node])
	}
}

func observed(o host.Obs) reflua.Observed {
	return reflua.Observed{Trace: o.Trace, Status: o.Status, Results: o.Results, Err: o.Err}
}

func refString(r reflua.Result) string {
	s := r.Status
	if r.Status == "ok" {
		s += " (" + strings.Join(r.Results, ", ") + ")"
	} else {
		s += " " + r.Err
	}
	return s + " trace=[" + strings.Join(r.Trace, " | ") + "]"
}

// clauseOf names the violated clause:
//
//	spurious-handler  golua ran a message handler where the reference ran none
//	missing-handler   the reference ran a message handler, golua did not
//	wrong-handler     golua ran the message handler of another xpcall
//	position          the values agree except for the chunk:LINE: prefix of a message
//	trace             any other difference in the events before the epilogue
//	epilogue          a difference in the runtime-still-consistent battery
//	status, results, error   the outcome of the chunk for the embedding caller
func clauseOf(cmp string, ref reflua.Result, got host.Obs) string {
	w := cmp
	if k := strings.IndexAny(w, " ["); k >= 0 {
		w = w[:k]
	}
	loose := reflua.Matcher{Chunk: chunkName}
	switch w {
	case "error":
		if got.Status == "err" && loose.Match(ref.Err, got.Err) {
			return "position"
		}
		return w
	case "results":
		if loose.Match(strings.Join(ref.Results, ","), strings.Join(got.Results, ",")) {
			return "position"
		}
		return w
	case "trace":
	default:
		return w
	}
	var idx int
	fmt.Sscanf(cmp, "trace[%d]", &idx)
	r, g := "", ""
	if idx < len(ref.Trace) {
		r = ref.Trace[idx]
	}
	if idx < len(got.Trace) {
		g = got.Trace[idx]
	}
	isH := func(e string) bool { return strings.HasPrefix(e, `s:"h`) }
	isEp := func(e string) bool { return strings.HasPrefix(e, `s:"ep-`) }
	tag := func(e string) string {
		if k := strings.Index(e, `",`); k >= 0 {
			return e[:k]
		}
		return e
	}
	switch {
	case isH(g) && isH(r) && tag(g) != tag(r):
		return "wrong-handler"
	case isH(g) && !isH(r):
		return "spurious-handler"
	case isH(r) && !isH(g):
		return "missing-handler"
	case strings.Contains(g, errInHandling) && !strings.Contains(r, errInHandling):
		// only a message handler that ran and failed produces this value: golua
		// ran one (again) where the reference ran none
		return "spurious-handler"
	case r != "" && g != "" && looseMatch(r, g):
		return "position"
	case isEp(r) && (g == "" || isEp(g)):
		return "epilogue"
	}
	return "trace"
}

const errInHandling = `s:"error in error handling"`

// looseMatch: equal except for position prefixes of messages.
func looseMatch(r, g string) bool {
	// the position marker of the reference accepts any chunk:LINE: prefix when
	// no LineFn is given; a VM error accepts any string
	if (reflua.Matcher{Chunk: chunkName}).Match(r, g) {
		return true
	}
	// a message that should carry a position but has none at all
	return (reflua.Matcher{Chunk: chunkName}).Match(stripMarks(r), g)
}

var markRe = regexp.MustCompile(`\\x01@[0-9]+\\x01`)

func stripMarks(r string) string { return markRe.ReplaceAllString(r, "") }

type parsed struct {
	progs   []*prog.Prog
	headers map[int]bool
}

func parseCase(g gcase) parsed {
	var ps parsed
	ps.headers = map[int]bool{}
	for i, c := range g.chunks {
		p, err := prog.Parse(c)
		if err != nil {
			panic(fmt.Sprintf("c11: generated chunk does not parse: %v\n%s", err, c))
		}
		ps.progs = append(ps.progs, p)
		if i == 0 {
			headerNodes(p.Body, ps.headers)
		}
	}
	return ps
}

// runRef runs the chunks of a case in one reference session.
func runRef(ps parsed) (res []reflua.Result, skip string) {
	s := reflua.NewSession(refOpts)
	defer s.Close()
	if r := s.Run(ep.prog, nil); r.Status != "ok" {
		panic("c11: the epilogue definition chunk failed in the reference: " + r.Unspec + r.Err)
	}
	for _, p := range ps.progs {
		r := s.Run(p, nil)
		if r.Unspec != "" {
			return nil, "unspec: " + r.Unspec
		}
		if r.Diverge {
			return nil, "reference step budget exceeded"
		}
		res = append(res, r)
	}
	return res, ""
}

// runGolua runs the chunks of a case (rendered in one style) in one fresh
// runtime.  Chunk 1 is called as the case says (plain rt.Call, or inside
// Thread.CallContext with an empty definition), the others always inside a
// context.
func runGolua(srcs []string, hostMode string) []host.Obs {
	m := host.NewMachine(false)
	defer m.Close()
	var out []host.Obs
	epc := m.R.LoadLuaUnit(ep.unit, rt.TableValue(m.R.GlobalEnv()))
	if o := m.Call(rt.FunctionValue(epc), nil, &rt.RuntimeContextDef{}); o.Status != "ok" {
		o.Err = "epilogue definition chunk: " + o.Err
		return []host.Obs{o}
	}
	allCtx := true
	for i, src := range srcs {
		def := &rt.RuntimeContextDef{}
		if i == 0 && hostMode == "call" {
			def = nil
		}
		o := m.Exec(chunkName, src, nil, def)
		o.Trace = append([]string{}, o.Trace...)
		// (values left pending by a plain rt.Call that failed are check C10's
		// business: the close stack is only looked at while every call so far
		// was made inside a context)
		allCtx = allCtx && def != nil
		if end := m.EndState(allCtx); end != "" && (o.Status == "ok" || o.Status == "err") {
			o.Status, o.Err = "end-state", "after the host call returned ("+o.Status+") the main thread is not at rest: "+end
		}
		out = append(out, o)
		if o.Status == "compile" || o.Status == "gopanic" {
			break
		}
	}
	return out
}

func runCase(tier, fam string, i uint64, g gcase) core.Outcome {
	epInit()
	ps := parseCase(g)
	refs, skip := runRef(ps)
	if skip != "" {
		if os.Getenv("VERIF_C11_WHY") != "" {
			fmt.Fprintf(os.Stderr, "%s:%d %s skipped: %s\n", fam, i, g.key, skip)
		}
		return core.Outcome{Skipped: true}
	}
	var out core.Outcome
	out.NonTrivial = true
	plainOK := true
	for si, st := range stylesFor(tier, i) {
		srcs := make([]string, len(ps.progs))
		var spans map[int]*prog.Span
		for k, p := range ps.progs {
			var sp map[int]*prog.Span
			srcs[k], sp = prog.Render(p, st)
			if k == 0 {
				spans = sp
			}
		}
		gots := runGolua(srcs, g.host)
		if si == 0 {
			var sb strings.Builder
			for _, o := range gots {
				sb.WriteString(o.String())
				sb.WriteByte('\n')
			}
			out.Sig = core.Hash64(sb.String())
		}
		if os.Getenv("VERIF_C11_TRACE") != "" { // development aid
			for k := range refs {
				fmt.Fprintf(os.Stderr, "[%s] chunk %d\n  reference: %s\n", st, k+1, refString(refs[k]))
				if k < len(gots) {
					fmt.Fprintf(os.Stderr, "  golua:     %s\n", gots[k])
				}
			}
		}
		lf := lineFn(spans, st, ps.headers)
		m := reflua.Matcher{Chunk: chunkName, Lines: lf, RTLines: lf}
		clause, detail := "", ""
		for k := range refs {
			if k >= len(gots) {
				clause, detail = "status", fmt.Sprintf("chunk %d was not run", k+1)
				break
			}
			got := gots[k]
			var cmp string
			switch got.Status {
			case "ok", "err":
				cmp = m.Compare(refs[k], observed(got))
			default:
				cmp = "status expected " + refs[k].Status + " got " + got.Status + " " + got.Err
			}
			if cmp != "" {
				clause = clauseOf(cmp, refs[k], got)
				detail = fmt.Sprintf("chunk %d: %s\nreference: %s\ngolua:     %s", k+1, cmp, refString(refs[k]), got)
				break
			}
		}
		if clause == "" {
			continue
		}
		if si == 0 {
			plainOK = false
		}
		key := fmt.Sprintf("%s %s clause=%s", fam, g.key, clause)
		if plainOK {
			key += " style=" + st.String()
		}
		out.Viols = append(out.Viols, &core.Violation{
			Key:    key,
			Detail: fmt.Sprintf("%s\nhost call of chunk 1: %s\nprogram (%s):\n%s", detail, g.host, st, numbered(srcs)),
		})
		if !plainOK {
			break // one report per program; other spellings repeat it
		}
	}
	return out
}

func numbered(srcs []string) string {
	var sb strings.Builder
	for k, s := range srcs {
		if len(srcs) > 1 {
			fmt.Fprintf(&sb, "-- chunk %d\n", k+1)
		}
		for i, l := range strings.Split(strings.TrimRight(strings.ReplaceAll(s, "\r\n", "\n"), "\n"), "\n") {
			fmt.Fprintf(&sb, "%3d  %s\n", i+1, l)
		}
	}
	return sb.String()
}

func showCase(g gcase) string {
	epInit()
	ps := parseCase(g)
	srcs := make([]string, len(ps.progs))
	for k, p := range ps.progs {
		srcs[k], _ = prog.Render(p, prog.Plain)
	}
	return g.key + " host=" + g.host + "\n" + numbered(srcs) + "-- epilogue chunk (loaded first)\n" + numbered([]string{ep.src})
}
