// C11 — errors reach exactly the nearest protected call, with their value intact.
//
// Every element of the product RAISE SITE x VALUE x POSITION x CATCH STRUCTURE
// (gen.go) is turned into a program, parsed into the checker's AST, run by the
// definitional reference interpreter reflua (extended error model) and, as
// source text in several spellings, by golua in a fresh runtime.  After the
// catch a fixed epilogue battery runs in the same runtime.  Traces, results,
// error values (tables by identity, position prefixes of messages) must agree.
package main

import (
	"flag"
	"os"
	"runtime"

	"verif/engine/core"
)

type famDef struct {
	name   string
	raises []raise
}

var famDefs = []famDef{
	{"error-call", raisesError},
	{"vm-error", raisesVM},
	{"metamethod", raisesMeta},
	{"iterator", raisesIter},
	{"close-handler", raisesClose},
}

// singlePositions: every single position (both tiers).
func singlePositions() [][]position {
	var out [][]position
	for _, p := range positionsBase {
		out = append(out, []position{p})
	}
	for _, p := range positionsDeepExtra {
		out = append(out, []position{p})
	}
	return out
}

// pairPositions: every ordered pair (outer, inner) of the base positions
// (thorough only).
func pairPositions() [][]position {
	var out [][]position
	for _, p := range positionsBase {
		for _, q := range positionsBase {
			out = append(out, []position{p, q})
		}
	}
	return out
}

// budget: wall seconds after which a family stops itself (the run is then
// reported as not exhaustive).  About 2.5 times what the family needs on 16
// idle cores (measured 5.3 ms CPU per case with 2 renderings, 15 ms with 6),
// never less than 40 s.
func budget(tier, fam string) int {
	if tier != "thorough" {
		switch fam {
		case "metamethod":
			return 100
		case "results", "interleave", "misc":
			return 30
		}
		return 50
	}
	switch fam {
	case "metamethod", "metamethod-pairs", "vm-error-pairs":
		return 150
	case "iterator-pairs", "close-handler-pairs":
		return 90
	case "results", "interleave", "misc":
		return 40
	}
	return 60
}

// productFamily: index = ((pos * nR + raise) * nV + value) * nC + catch.
// pairs=false: single positions, every value of the tier, every rendering of
// the tier.  pairs=true (thorough): ordered pairs of positions, values {string,
// table}, renderings as in the quick tier (plain + one rotating).
func productFamily(tier string, fd famDef, pairs bool) *core.Family {
	vals := valuesQuick
	poss := singlePositions()
	name := fd.name
	styleTier := tier
	if tier == "thorough" {
		vals = valuesThorough
	}
	if pairs {
		vals = []value{valuesQuick[0], valuesQuick[3]}
		poss = pairPositions()
		name += "-pairs"
		styleTier = "quick"
	}
	nC, nP, nV := uint64(len(catches)), uint64(len(poss)), uint64(len(vals))
	nR := uint64(len(fd.raises))
	at := func(i uint64) (gcase, bool) {
		c := catches[i%nC]
		i /= nC
		v := vals[i%nV]
		vi := i % nV
		i /= nV
		r := fd.raises[i%nR]
		i /= nR
		p := poss[i]
		if !r.usesV && vi != 0 {
			return gcase{}, false // the value does not occur in the program
		}
		return build(r, v, p, c)
	}
	return &core.Family{
		Name: name,
		Size: nP * nR * nV * nC,
		Run: func(i uint64) core.Outcome {
			g, ok := at(i)
			if !ok {
				return core.Outcome{Skipped: true}
			}
			return runCase(styleTier, fd.name, i, g)
		},
		Show: func(i uint64) string {
			g, ok := at(i)
			if !ok {
				return "(excluded combination)"
			}
			return showCase(g)
		},
		HangSeconds:   60,
		BudgetSeconds: budget(tier, name),
	}
}

func listFamily(tier, name string, cases func(tier string) []gcase) *core.Family {
	cs := cases(tier)
	return &core.Family{
		Name:          name,
		Size:          uint64(len(cs)),
		Run:           func(i uint64) core.Outcome { return runCase(tier, name, i, cs[i]) },
		Show:          func(i uint64) string { return showCase(cs[i]) },
		HangSeconds:   60,
		BudgetSeconds: budget(tier, name),
	}
}

func main() {
	core.Main(&core.Check{
		Init: func(tier string) {
			if f := flag.Lookup("worker"); f != nil && f.Value.String() == "true" {
				// one mutator thread: coroutine hand-offs (goroutines in golua and in
				// the reference) then never cross OS threads; measured 30% cheaper
				runtime.GOMAXPROCS(1)
			}
			if os.Getenv("VERIF_C11_BENCH") != "" {
				devBench(tier, families(tier))
			}
		},
		ID:    "C11",
		Level: "model_checking",
		Rule: "every element of RAISE SITE (error() levels, VM errors, raising metamethods / iterators / __close handlers / message handlers) x VALUE x POSITION " +
			"(operand, argument, constructor field, loop iteration 2, nested / recursive function at pool-boundary depths, coroutine body, message handler, <close> scope; thorough: every ordered pair) " +
			"x CATCH STRUCTURE (embedding caller via rt.Call and via CallContext, pcall, xpcall with 4 handlers, 4 nestings, coroutine.resume, resume inside xpcall, coroutine.wrap inside pcall), " +
			"plus the overflow family (every sequence of <= 2 (thorough 3) runaway recursions through 8 re-entrant call vehicles x 4 catchers; a later dive must behave as the same dive made first in a fresh runtime), the results family (pcall returns true plus all results) and the interleave family (protected calls suspended inside coroutines); " +
			"each run on golua in a fresh runtime in >=2 (quick) / 6 (thorough) renderings and compared with the reference interpreter reflua, followed by a fixed epilogue battery in the same runtime; " +
			"non-trivial = every evaluated case (each raises and catches an error or returns through a protected call); distinct = distinct golua observations of the plain rendering",
		Assumptions: []string{
			"reference semantics (engine/reflua, extended error model Ext{CloseErrHandled, HandlerErrAny}) typed from the Lua 5.4 manual §2.3, §3.3.8, §6.1, §6.2; it imports nothing from golua",
			"texts of VM/library error messages are never compared; a VM-generated error must be a string starting with chunk:LINE: when the faulting operation is on one line of a rendering with exact lines; strings raised by error(msg,1|2) must read chunk:LINE: msg",
			"the value returned by an xpcall whose message handler fails, and how often that handler is re-entered, are not determined (any value matches; handlers have no observable effect after their first activation)",
			"string errors propagated through coroutine.wrap may be decorated by the implementation (any string matches); other values must be delivered themselves",
			"combinations left to check C10 are excluded: to-be-closed variables pending in a coroutine that dies by an error under coroutine.resume, or in a chunk called by plain rt.Call",
			"function values are compared as 'is a function' plus rawequal with the raised value inside the program",
			"golua chunks are called through Thread.CallContext with an empty RuntimeContextDef, except catch=none-call (plain rt.Call)",
		},
		Families: families,
	})
}

func families(tier string) []*core.Family {
	var fams []*core.Family
	fams = append(fams, listFamily(tier, "results", resultsCases))
	fams = append(fams, listFamily(tier, "interleave", interleaveCases))
	fams = append(fams, listFamily(tier, "misc", miscCases))
	fams = append(fams, overflowFamily(tier))
	for _, fd := range famDefs {
		fams = append(fams, productFamily(tier, fd, false))
	}
	if tier == "thorough" {
		for _, fd := range famDefs {
			fams = append(fams, productFamily(tier, fd, true))
		}
	}
	return fams
}
