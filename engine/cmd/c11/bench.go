package main

import (
	"fmt"
	"os"
	"runtime/pprof"
	"strconv"
	"strings"
	"time"

	"verif/engine/core"
)

// devBench is a development aid: VERIF_C11_BENCH=family:n[:stride] runs n cases
// of a family in process and prints the time per case (and a CPU profile to
// VERIF_C11_PROF if set).  Not used by the check.
func devBench(tier string, fams []*core.Family) {
	spec := os.Getenv("VERIF_C11_BENCH")
	if spec == "" {
		return
	}
	parts := strings.Split(spec, ":")
	n, _ := strconv.Atoi(parts[1])
	stride := uint64(1)
	if len(parts) > 2 {
		s, _ := strconv.Atoi(parts[2])
		stride = uint64(s)
	}
	if pf := os.Getenv("VERIF_C11_PROF"); pf != "" {
		f, _ := os.Create(pf)
		pprof.StartCPUProfile(f)
		defer pprof.StopCPUProfile()
	}
	for _, f := range fams {
		if f.Name != parts[0] {
			continue
		}
		t0 := time.Now()
		evals, viols := 0, 0
		for i := uint64(0); i < f.Size && evals < n; i += stride {
			o := f.Run(i)
			if o.Skipped {
				continue
			}
			evals++
			viols += len(o.Viols)
		}
		d := time.Since(t0)
		fmt.Printf("%s: %d cases, %d violations, %.2f ms/case\n", f.Name, evals, viols, float64(d.Microseconds())/1000/float64(evals))
	}
	pprof.StopCPUProfile()
	os.Exit(0)
}
