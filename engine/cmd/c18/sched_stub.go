//go:build !vsched

package main

import "verif/engine/core"

// Without the vsched overlay (plain `go build`) the schedule families are absent.
func schedFamilies(tier string) []*core.Family { return nil }
