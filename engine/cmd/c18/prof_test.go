package main

import "testing"

func BenchmarkShard(b *testing.B) {
	for i := 0; i < b.N; i++ {
		s := &searcher{poolKind: "clone", states: map[[16]byte]struct{}{}, viols: map[string]string{}}
		s.run([]uint8{evMark + 2, evMark + 4}, 3)
		b.ReportMetric(float64(s.trans), "trans")
	}
}
