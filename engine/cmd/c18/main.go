// C18: finalisers and resource release run exactly once, in order, inside
// their context.  See NOTES.md.
package main

import (
	"runtime"
	"runtime/debug"

	rt "github.com/arnodel/golua/runtime"

	"verif/engine/core"
)

// installSeam: Go finaliser timing is owned by the harness: the pools never
// reach runtime.SetFinalizer in this process.
func installSeam() {
	rt.VerifSetFinalizerSeam(func(obj interface{}, fin interface{}) {
		if curMachine != nil {
			curMachine.seam(obj, fin)
			return
		}
		seam(obj, fin)
	})
}

var ballast []byte

func main() {
	installSeam()
	core.Main(&core.Check{
		ID:    "C18",
		Level: "model_checking",
		Rule: "part A: every history (to the depth in the family name, from three start states) of Mark/re-mark/unmark, drop, gcfire (the Go finaliser, fired by the harness through the seam only for objects that are unreachable from the program and from the pool), " +
			"ExtractPendingFinalize/Release, resurrect, ExtractAllMarkedFinalize/Release on the real ClonePool and UnsafePool, replayed on a fresh pool per transition, the refgc ledger consulted at every extraction " +
			"(states = distinct canonical states: full reflective dump of the pool + finaliser registrations + program side + ledger; transitions = events executed); " +
			"part B: every well-formed sequence (to the length in the family name) of create/re-mark/unmeta/drop/gcfire/collectgarbage/step/enter-context/leave-context(return,error,kill,loop) operations on a real Runtime followed by Runtime.Close, " +
			"rendered as a single Lua chunk (runtime.callcontext) and operation by operation through the Go API (Thread.CallContext; with and without a VM step before each context end / Close), every __gc and ReleaseResources invocation logged with context depth/status/cpu and judged by refgc.RTMon; " +
			"B-io: io.open/io.tmpfile userdata dropped without close, descriptors counted in /proc/self/fd; non-trivial = every case; distinct = distinct canonical end states / logs",
		Assumptions: []string{
			"the only thing trusted about Go's collector is that it runs a finaliser only for an object that is unreachable: gcfire is enabled only for an object the program dropped and that the structure of no live pool references (checked by reflection over the real pools)",
			"real runtime.SetFinalizer is never reached by the pools (seam installed once per process); the Runtime's own finaliser is cleared after rt.New; a second SetFinalizer on an object that still has one is reported (real Go aborts the process)",
			"Mark(v, 0) (unmark), dropping a flag in a re-mark, marks made after the close-time finalisers were extracted, and removing/replacing the metatable by one without __gc are not determined by the statement: the obligation becomes optional (at most once, not required)",
			"pool level: between ExtractAllMarkedFinalize and ExtractAllMarkedRelease only mark/drop/gcfire/resurrect are explored (the runtime does not extract pending batches while close-time finalisers run)",
			"a value re-marked inside a second isolated context while the first is alive has no determined owner: it is not judged any further (only the SetFinalizer abort is reported)",
			"order is checked for finalisers (statement) and for every pool batch (Pool interface contract); release order at runtime level is not checked beyond release-after-own-finaliser; no error message, no cpu amount other than through inequalities",
			"part B runs on the default pool (ClonePool); UnsafePool is covered at pool level only; interleavings of the Go finaliser goroutine with the extract calls (E3) are not explored",
		},
		Init: func(tier string) {
			// millions of tiny replays / fresh runtimes.  Page faults are very
			// expensive on this box: an untouched (hence non resident) ballast
			// keeps the heap goal high, so that the collector runs rarely and
			// the scavenger does not hand freed pages back to the kernel only
			// to fault them in again; one thread per worker.
			ballast = make([]byte, 256<<20)
			debug.SetGCPercent(100)
			runtime.GOMAXPROCS(1)
		},
		Families: func(tier string) []*core.Family {
			return append(append(partAFamilies(tier), schedFamilies(tier)...), partBFamilies(tier)...)
		},
	})
}
