// C18: finalisers and resource release run exactly once, in order, inside
// their context.  See NOTES.md.
package main

import (
	"runtime"
	"runtime/debug"

	rt "github.com/arnodel/golua/runtime"

	"verif/engine/core"
)

// installSeam: Go finaliser timing is owned by the harness: the pools never
// reach runtime.SetFinalizer in this process.
func installSeam() {
	rt.VerifSetFinalizerSeam(func(obj interface{}, fin interface{}) {
		if curMachine != nil {
			curMachine.seam(obj, fin)
			return
		}
		seam(obj, fin)
	})
}

var ballast []byte

func main() {
	installSeam()
	core.Main(&core.Check{
		ID:    "C18",
		Level: "model_checking",
		Rule: "part A: every history (to the depth in the family name, from three start states) of Mark/re-mark/unmark, drop, gcfire (the Go finaliser, fired by the harness through the seam only for objects that are unreachable from the program and from the pool), " +
			"ExtractPendingFinalize/Release, resurrect, ExtractAllMarkedFinalize/Release on the real ClonePool and UnsafePool, replayed on a fresh pool per transition, the refgc ledger consulted at every extraction " +
			"(states = distinct canonical states: full reflective dump of the pool + finaliser registrations + program side + ledger; transitions = events executed); " +
			"part B: every well-formed sequence (to the length in the family name) of create/re-mark/unmeta/drop/gcfire/collectgarbage/enter-context/leave-context(return,error,kill) events on a real Runtime, " +
			"rendered once as a single Lua chunk (runtime.callcontext) and once event by event through the Go API (Thread.CallContext, Runtime.Close), every __gc and ReleaseResources invocation logged with context depth/status/cpu; " +
			"io: io.open/io.tmpfile userdata dropped without close, descriptors counted in /proc/self/fd; non-trivial = every case; distinct = distinct canonical end states / logs",
		Assumptions: []string{
			"the only thing trusted about Go's collector is that it runs a finaliser only for an object that is unreachable: gcfire is enabled only for an object the program dropped and that the pool structure does not reference (checked by reflection over the live pool)",
			"real runtime.SetFinalizer is never reached by the pools (seam installed once per process); the Runtime's own finaliser is cleared after rt.New",
			"Mark(v, 0) (unmark), dropping a flag in a re-mark, marks made after the close-time finalisers were extracted, and removing/replacing the metatable by one without __gc are not determined by the statement: the obligation becomes optional (at most once, not required)",
			"re-marking a value inside a different isolated context than the one it was marked in (two pools own it) is excluded from part B: the statement does not say which context owns it",
			"order is checked for finalisers (statement) and for every pool batch (Pool interface contract); release order at runtime level is not checked beyond release-after-own-finaliser",
			"part B runs on the default pool (ClonePool); UnsafePool is covered at pool level only",
		},
		Init: func(tier string) {
			// millions of tiny replays / fresh runtimes.  Page faults are very
			// expensive on this box: an untouched (hence non resident) ballast
			// keeps the heap goal high, so that the collector runs rarely and
			// the scavenger does not hand freed pages back to the kernel only
			// to fault them in again; one thread per worker.
			ballast = make([]byte, 256<<20)
			debug.SetGCPercent(100)
			runtime.GOMAXPROCS(1)
		},
		Families: func(tier string) []*core.Family {
			return append(partAFamilies(tier), partBFamilies(tier)...)
		},
	})
}
