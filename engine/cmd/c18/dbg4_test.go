package main

import "testing"

func BenchmarkCase(b *testing.B) {
	ops := []bop{{oNew, 0, kT}, {oEnter, 0, cCPU}, {oNew, 1, kUFR}, {oDrop, 0, 0}, {oLeave, 0, lRet}}
	for i := 0; i < b.N; i++ {
		runCase(ops, "lua")
		runCase(ops, "go")
	}
}
