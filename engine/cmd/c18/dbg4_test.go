package main

import "testing"

func BenchmarkFam(b *testing.B) {
	f := seqFamily("B-seq-2val-len5", bcfg{kinds: []uint8{kT, kUR, kUFR, kTres}, ctxKinds: permissive.ctxKinds, leaves: permissive.leaves, nvals: 2, maxDepth: 2, maxCtx: 2, length: 5}, 40)
	b.ResetTimer()
	n := uint64(0)
	for i := 0; i < b.N; i++ {
		f.Run((n * 37) % f.Size)
		n++
	}
}
