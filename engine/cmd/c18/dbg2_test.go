package main

import (
	"fmt"
	"testing"
)

func show(ops []bop) {
	for _, via := range []string{"lua", "go"} {
		r := runCase(ops, via)
		fmt.Printf("== %s via=%s status=%q fires=%d clauses=%v\n%smon: %s\n", seqString(ops), via, r.status, r.fires, r.clauses, logString(r.log, ops), r.monitor)
	}
}

func TestSeqs(t *testing.T) {
	show([]bop{{oNew, 0, kT}, {oDrop, 0, 0}, {oFire, 0, 0}})
	show([]bop{{oNew, 0, kUFR}, {oNew, 1, kT}, {oEnter, 0, cCPU}, {oDrop, 0, 0}, {oFire, 0, 0}, {oGC, 0, 0}, {oLeave, 0, lKill}})
	show([]bop{{oEnter, 0, cCPU}, {oNew, 0, kTspin}, {oNew, 1, kUFR}, {oLeave, 0, lRet}})
	show([]bop{{oEnter, 0, cCPU}, {oNew, 0, kTres}, {oDrop, 0, 0}, {oFire, 0, 0}, {oGC, 0, 0}, {oLeave, 0, lErr}})
	fmt.Println(renderLua([]bop{{oEnter, 0, cCPU}, {oNew, 0, kTres}, {oEnter, 0, cSoft}, {oDrop, 0, 0}, {oLeave, 0, lKill}, {oFire, 0, 0}, {oGC, 0, 0}, {oLeave, 0, lErr}, {oRemark, 0, 0}}))
}

func TestGenCount(t *testing.T) {
	for _, tier := range []string{"quick", "thorough"} {
		for _, f := range partBFamilies(tier) {
			fmt.Println(tier, f.Name, f.Size)
		}
	}
}
