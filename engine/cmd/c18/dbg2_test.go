package main

import (
	"fmt"
	"testing"
)

func show(ops []bop) {
	for _, via := range []string{"lua", "go"} {
		r := runCase(ops, via)
		fmt.Printf("== %s via=%s status=%q fires=%d clauses=%v\n%smon: %s\n", seqString(ops), via, r.status, r.fires, r.clauses, logString(r.log, ops), r.monitor)
	}
}

func TestSeqs(t *testing.T) {
	show([]bop{{oEnter, 0, cCPU}, {oNew, 0, kT}, {oNew, 1, kTkill}, {oEnter, 0, cSoft}, {oDrop, 0, 0}, {oDrop, 1, 0}, {oFire, 0, 0}, {oFire, 1, 0}, {oStep, 0, 0}, {oLeave, 0, lRet}, {oLeave, 0, lRet}})
}

func TestGenCount(t *testing.T) {
	for _, tier := range []string{"quick", "thorough"} {
		for _, f := range partBFamilies(tier) {
			fmt.Println(tier, f.Name, f.Size)
		}
	}
}

func TestIO(t *testing.T) {
	for _, c := range [][4]int{{0, 0, 0, 0}, {0, 1, 1, 0}, {2, 1, 1, 2}, {2, 2, 2, 1}, {0, 1, 5, 2}, {2, 0, 6, 0}, {1,1,4,0}} {
		bad, sig, canon := runIO(c[0], c[1], c[2], c[3])
		fmt.Println(c, bad, canon)
		_ = sig
	}
}
