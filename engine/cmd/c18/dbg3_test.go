package main

import (
	"fmt"
	"testing"
)

func TestFire(t *testing.T) {
	ops := []bop{{oNew, 0, kUFR}, {oDrop, 0, 0}, {oFire, 0, 0}}
	m := newBMachine()
	m.trackHeld(ops)
	m.runGo(ops, 0, 2)
	for _, r := range m.regs {
		fmt.Printf("reg %T id=%d fin=%v retained=%v\n", r.obj, r.id, r.fin != nil, m.retained()[r.obj])
	}
	fmt.Println("held", m.held)
	m.fire(2, 1)
	fmt.Println("fires", m.fires)
	fmt.Print(logString(m.log, ops))
}
