#!/bin/bash
# Builds the C18 checker: instrumented copies of golua's thread.go etc. are
# generated from /repo's CURRENT working tree and mounted with -overlay.
set -u
HERE="$(cd "$(dirname "$0")" && pwd)"
ROOT="$(cd "$HERE/../../.." && pwd)"
export GOFLAGS=-mod=mod GOPROXY=off GOSUMDB=off GOTOOLCHAIN=local
export GOCACHE="${GOCACHE:-$ROOT/.cache/go-build}"
mkdir -p "$ROOT/.bin"
cd "$ROOT/engine" || exit 2
cp /repo/go.sum go.sum 2>/dev/null
go build -o "$ROOT/.bin/mkoverlay" ./cmd/mkoverlay || { echo "BUILD-FAILED mkoverlay" >&2; exit 2; }
REPO="${VERIF_REPO:-/repo}"; MODFLAG=""; BIN="$ROOT/.bin/c18"; OV="$ROOT/.bin/ov-c18"
if [ -n "${VERIF_REPO:-}" ]; then
  mkdir -p "$ROOT/.bin/alt"
  sed "s#=> /repo#=> $VERIF_REPO#" go.mod > "$ROOT/.bin/alt/c18.mod"; cp go.sum "$ROOT/.bin/alt/c18.sum"
  MODFLAG="-modfile=$ROOT/.bin/alt/c18.mod"; BIN="$ROOT/.bin/alt/c18"; OV="$ROOT/.bin/alt/ov-c18"
fi
rm -rf "$OV"
"$ROOT/.bin/mkoverlay" -repo "$REPO" -pools -out "$OV" -vsched "$ROOT/engine/vschedsrc" > "$ROOT/.bin/c18.rewrite.log" || { echo "BUILD-FAILED property=C18: the rewriter cannot instrument the current sources (the check could not run)" >&2; exit 2; }
if ! go build $MODFLAG -overlay "$OV/overlay.json" -tags "verif vsched" -ldflags=-checklinkname=0 -o "$BIN" ./cmd/c18 2>"$ROOT/.bin/c18.build.log"; then
  echo "BUILD-FAILED property=C18 (the check could not run); see $ROOT/.bin/c18.build.log" >&2
  cat "$ROOT/.bin/c18.build.log" >&2
  exit 2
fi
