package main

import (
	"fmt"
	"syscall"
	"testing"
)

func cpuSec() float64 {
	var ru syscall.Rusage
	syscall.Getrusage(syscall.RUSAGE_SELF, &ru)
	return float64(ru.Utime.Sec) + float64(ru.Utime.Usec)/1e6 + float64(ru.Stime.Sec) + float64(ru.Stime.Usec)/1e6
}

func TestSizeA(t *testing.T) {
	for _, pk := range []string{"clone", "unsafe"} {
		for _, depth := range []int{5, 6} {
			f := poolFamily(pk, depth, 0)
			var states, trans, evals uint64
			t0 := cpuSec()
			for i := uint64(0); i < f.Size; i++ {
				o := f.Run(i)
				if o.Skipped {
					continue
				}
				evals++
				states += o.States
				trans += o.Trans
			}
			fmt.Printf("%s depth %d: evals=%d states=%d trans=%d cpu=%.1fs\n", pk, depth, evals, states, trans, cpuSec()-t0)
		}
	}
}
