package main

// Part B: the C18 events driven through Lua and the Go API on a real Runtime.
// A case is a well-formed sequence of operations; it is run twice on fresh
// runtimes: rendered as ONE Lua chunk (contexts through runtime.callcontext)
// and operation by operation through the Go API (Thread.CallContext), where no
// VM step separates two operations -- the moment at which Go's collector (the
// seam) is allowed to act.  Every __gc / ReleaseResources invocation is logged
// with the context depth / status / cpu at that moment and the log is judged
// by refgc.RTMon.

import (
	"fmt"
	"reflect"
	"runtime"
	"strings"

	"github.com/arnodel/golua/code"
	"github.com/arnodel/golua/lib"
	"github.com/arnodel/golua/lib/base"
	"github.com/arnodel/golua/lib/debuglib"
	"github.com/arnodel/golua/lib/packagelib"
	"github.com/arnodel/golua/lib/runtimelib"
	rt "github.com/arnodel/golua/runtime"

	"verif/engine/refgc"
)

// ---------------------------------------------------------------- operations

type bop struct{ k, v, a uint8 }

const (
	oNew = iota
	oRemark
	oUnmeta
	oDrop
	oFire
	oGC
	oStep // a no-op Lua call: one VM step (pending finalisers are extracted before it)
	oEnter
	oLeave
)

// value kinds
const (
	kT       = iota // table with __gc
	kUR             // userdata, releaser, no __gc
	kUFR            // userdata, releaser and __gc
	kTres           // table whose finaliser stores it back in its global (once)
	kUF             // userdata with __gc, no releaser
	kTremark        // table whose finaliser resurrects and re-marks it (once)
	kUFRres         // userdata FR whose finaliser resurrects it (once)
	kTspin          // table whose finaliser never returns (only under a hard cpu limit)
	kTkill          // table whose finaliser kills the context it runs in (only owned by a non-root context)
	kTremarkSame    // as Tremark, but re-marked with the metatable it already has (setmetatable(o, getmetatable(o)))
	nKinds
)

var kindName = [nKinds]string{"T", "UR", "UFR", "Tres", "UF", "Tremark", "UFRres", "Tspin", "Tkill", "TremarkSame"}

func kindF(k uint8) bool     { return k != kUR }
func kindR(k uint8) bool     { return k == kUR || k == kUFR || k == kUFRres }
func kindTable(k uint8) bool {
	return k == kT || k == kTres || k == kTremark || k == kTspin || k == kTkill || k == kTremarkSame
}
func kindRes(k uint8) bool {
	return k == kTres || k == kTremark || k == kUFRres || k == kTremarkSame
}
func kindMode(k uint8) string {
	switch k {
	case kTres, kUFRres:
		return "res"
	case kTremark:
		return "remark"
	case kTremarkSame:
		return "remarksame"
	case kTspin:
		return "spin"
	case kTkill:
		return "kill"
	}
	return ""
}

// context kinds
const (
	cCPU = iota
	cMem
	cSoft
	nCtxKinds
)

var ctxName = [nCtxKinds]string{"cpu", "mem", "soft"}
// cpuLimit: an inner context gets a quarter of its parent's limit, so that
// killing the inner one by exhaustion never exhausts the outer one.
func cpuLimit(depth int) uint64 { return 32000 >> (2 * uint(depth)) }

func ctxLua(k uint8, depth int) string {
	switch k {
	case cCPU:
		return fmt.Sprintf("{kill={cpu=%d}}", cpuLimit(depth))
	case cMem:
		return "{kill={memory=1000000}}"
	}
	return "{stop={cpu=1000000}}"
}

func ctxDef(k uint8, depth int) rt.RuntimeContextDef {
	switch k {
	case cCPU:
		return rt.RuntimeContextDef{HardLimits: rt.RuntimeResources{Cpu: cpuLimit(depth)}}
	case cMem:
		return rt.RuntimeContextDef{HardLimits: rt.RuntimeResources{Memory: 1000000}}
	}
	return rt.RuntimeContextDef{SoftLimits: rt.RuntimeResources{Cpu: 1000000}}
}

// leave modes
const (
	lRet = iota
	lErr
	lKill
	lLoop
	nLeave
)

var leaveName = [nLeave]string{"ret", "err", "kill", "loop"}

func (o bop) String() string {
	v := string(rune('a' + o.v))
	switch o.k {
	case oNew:
		return "new " + v + " " + kindName[o.a]
	case oRemark:
		return "remark " + v
	case oUnmeta:
		return "unmeta " + v
	case oDrop:
		return "drop " + v
	case oFire:
		return "gcfire " + v
	case oGC:
		return "collectgarbage"
	case oStep:
		return "step"
	case oEnter:
		return "enter " + ctxName[o.a]
	case oLeave:
		return "leave " + leaveName[o.a]
	}
	return "?"
}

func seqString(ops []bop) string {
	parts := make([]string, len(ops))
	for i, o := range ops {
		parts[i] = o.String()
	}
	return strings.Join(parts, "; ")
}

// ---------------------------------------------------------------- generator (static well-formedness)

const maxVals = 3

type gval struct {
	created, dropped, fired bool
	kind                    uint8
	owner                   int8 // context instance of the latest mark (0 root), -1 closed
}
type gctx struct {
	inst    int8
	kind    uint8
	hardCPU bool
}
type gstate struct {
	vals  [maxVals]gval
	n     int
	stack [4]gctx
	depth int
	nctx  int8
}

type bcfg struct {
	kinds    []uint8
	ctxKinds []uint8
	leaves   []uint8
	nvals    int
	maxDepth int
	maxCtx   int
	length   int
}

var permissive = bcfg{
	kinds:    []uint8{kT, kUR, kUFR, kTres, kUF, kTremark, kUFRres, kTspin, kTkill, kTremarkSame},
	ctxKinds: []uint8{cCPU, cMem, cSoft},
	leaves:   []uint8{lRet, lErr, lKill, lLoop},
	nvals:    maxVals, maxDepth: 3, maxCtx: 100, length: 1 << 20,
}

func (s *gstate) hardCPU() bool { return s.depth > 0 && s.stack[s.depth-1].hardCPU }

func (s *gstate) isolInst() int8 {
	for i := s.depth - 1; i >= 0; i-- {
		if s.stack[i].kind != cSoft {
			return s.stack[i].inst
		}
	}
	return 0
}

func in(xs []uint8, x uint8) bool {
	for _, y := range xs {
		if x == y {
			return true
		}
	}
	return false
}

// allowed: may o follow in state s?  (static rules; operations on a global
// that turns out to be nil at run time are no-ops)
func (s *gstate) allowed(o bop, c *bcfg) bool {
	switch o.k {
	case oNew:
		if int(o.v) != s.n || s.n >= c.nvals || !in(c.kinds, o.a) {
			return false
		}
		if o.a == kTspin && !s.hardCPU() {
			return false
		}
		if o.a == kTkill && s.isolInst() == 0 {
			return false
		}
		return true
	case oRemark, oUnmeta, oDrop:
		if int(o.v) >= s.n {
			return false
		}
		v := &s.vals[o.v]
		if v.dropped && !(kindRes(v.kind) && v.fired) {
			return false
		}
		if o.k == oRemark && (v.kind == kTspin || v.kind == kTkill) && v.owner != s.isolInst() {
			return false // its finaliser must only ever run under a hard cpu limit / below the root
		}
		if o.k == oUnmeta && (v.kind == kTspin || v.kind == kTkill) {
			return false
		}
		return true
	case oFire:
		if int(o.v) >= s.n {
			return false
		}
		v := &s.vals[o.v]
		return v.dropped && !v.fired
	case oGC:
		// collectgarbage declares no compliance flags: it is refused under
		// any hard limit
		for i := 0; i < s.depth; i++ {
			if s.stack[i].kind != cSoft {
				return false
			}
		}
		return true
	case oStep:
		return true
	case oEnter:
		return s.depth < c.maxDepth && int(s.nctx) < c.maxCtx && in(c.ctxKinds, o.a)
	case oLeave:
		if s.depth == 0 || !in(c.leaves, o.a) {
			return false
		}
		if o.a == lLoop && s.stack[s.depth-1].kind != cCPU {
			return false // (exhausting an inherited limit would take the parent down too)
		}
		return true
	}
	return false
}

func (s *gstate) apply(o bop) {
	switch o.k {
	case oNew:
		s.vals[o.v] = gval{created: true, kind: o.a, owner: s.isolInst()}
		s.n++
	case oRemark:
		s.vals[o.v].owner = s.isolInst()
	case oDrop:
		s.vals[o.v].dropped, s.vals[o.v].fired = true, false
	case oFire:
		s.vals[o.v].fired = true
	case oEnter:
		s.nctx++
		s.stack[s.depth] = gctx{inst: s.nctx, kind: o.a, hardCPU: o.a == cCPU || s.hardCPU()}
		s.depth++
	case oLeave:
		inst := s.stack[s.depth-1].inst
		if s.stack[s.depth-1].kind != cSoft {
			for i := range s.vals {
				if s.vals[i].owner == inst {
					s.vals[i].owner = -1
				}
			}
		}
		s.depth--
	}
}

func wellFormed(ops []bop, c *bcfg) bool {
	var s gstate
	for _, o := range ops {
		if !s.allowed(o, c) {
			return false
		}
		s.apply(o)
	}
	return true
}

func alphabet(c *bcfg) []bop {
	var out []bop
	for v := 0; v < c.nvals; v++ {
		for _, k := range c.kinds {
			out = append(out, bop{oNew, uint8(v), k})
		}
	}
	for _, k := range []uint8{oDrop, oFire, oRemark, oUnmeta} {
		for v := 0; v < c.nvals; v++ {
			out = append(out, bop{k, uint8(v), 0})
		}
	}
	out = append(out, bop{oGC, 0, 0}, bop{oStep, 0, 0})
	for _, k := range c.ctxKinds {
		out = append(out, bop{oEnter, 0, k})
	}
	for _, k := range c.leaves {
		out = append(out, bop{oLeave, 0, k})
	}
	return out
}

// generate lists every well-formed sequence of 1..length operations, shortest
// first within each prefix order (depth first, deterministic).
func generate(c *bcfg) (flat []bop, offs []uint32) {
	al := alphabet(c)
	byLen := make([][]bop, c.length+1)
	var rec func(prefix []bop, s gstate)
	rec = func(prefix []bop, s gstate) {
		if len(prefix) > 0 {
			byLen[len(prefix)] = append(byLen[len(prefix)], prefix...)
		}
		if len(prefix) == c.length {
			return
		}
		for _, o := range al {
			if !s.allowed(o, c) {
				continue
			}
			// a sequence that ends by creating a value, entering a context
			// or a bare collectgarbage adds nothing over its prefix; still
			// enumerated only when not last
			s2 := s
			s2.apply(o)
			rec(append(prefix, o), s2)
		}
	}
	rec(nil, gstate{})
	offs = append(offs, 0)
	for l := 1; l <= c.length; l++ {
		for i := 0; i+l <= len(byLen[l]); i += l {
			flat = append(flat, byLen[l][i:i+l]...)
			offs = append(offs, uint32(len(flat)))
		}
	}
	return
}

// ---------------------------------------------------------------- machine

type rawEntry struct {
	kind   string
	id     int
	depth  int
	status string
	cpu    uint64
}

type seamReg struct {
	obj interface{}
	fin interface{}
	id  int
}

type bmachine struct {
	r       *rt.Runtime
	cleanup func()
	log     []rawEntry
	regs    []*seamReg
	byObj   map[interface{}]*seamReg
	pools   []rt.VerifGCPool
	held    [maxVals + 1]bool
	seamBad []string
	fn      map[string]rt.Value
	keep    []interface{}
	fires   int
	opsRef  []bop
	// autoStep (rendering "gostep"): the host runs one VM step before it
	// leaves a context or closes the runtime, so that whatever Go collected
	// has been extracted by then
	autoStep bool
}

var curMachine *bmachine

type ures struct {
	id int
	m  *bmachine
}
type urel struct{ ures }

func (u *urel) ReleaseResources(d *rt.UserData) { u.m.logNow("rel", u.id) }

func resID(x interface{}) int {
	switch u := x.(type) {
	case *ures:
		return u.id
	case *urel:
		return u.id
	}
	return 0
}

func objID(obj interface{}) int {
	switch o := obj.(type) {
	case *rt.Table:
		if n, ok := o.Get(rt.StringValue("id")).TryInt(); ok {
			return int(n)
		}
	case *rt.UserData:
		return resID(o.Value())
	}
	return 0
}

func valueID(v rt.Value) int {
	if t, ok := v.TryTable(); ok {
		return objID(t)
	}
	if u, ok := v.TryUserData(); ok {
		return objID(u)
	}
	if n, ok := v.TryInt(); ok {
		return int(n)
	}
	return 0
}

func (m *bmachine) seam(obj interface{}, fin interface{}) {
	reg := m.byObj[obj]
	if reg == nil {
		reg = &seamReg{obj: obj, id: objID(obj)}
		m.byObj[obj] = reg
		m.regs = append(m.regs, reg)
	}
	if fin != nil && reg.fin != nil && reg.id > 0 {
		// the real runtime.SetFinalizer throws "finalizer already set": the
		// whole process dies
		m.seamBad = append(m.seamBad, fmt.Sprintf("go-setfinalizer-twice(%c)", 'a'+reg.id-1))
	}
	reg.fin = fin
}

func isNilCtx(c rt.RuntimeContext) bool {
	if c == nil {
		return true
	}
	v := reflect.ValueOf(c)
	return v.Kind() == reflect.Ptr && v.IsNil()
}

func (m *bmachine) notePool() {
	p := m.r.VerifWeakRefPool()
	for _, q := range m.pools {
		if q == p {
			return
		}
	}
	m.pools = append(m.pools, p)
}

func (m *bmachine) logNow(kind string, id int) {
	c := m.r.RuntimeContext()
	e := rawEntry{kind: kind, id: id, status: c.Status().String(), cpu: c.UsedResources().Cpu}
	for p := c.Parent(); !isNilCtx(p); p = p.Parent() {
		e.depth++
	}
	m.log = append(m.log, e)
	m.notePool()
}

const allFlags = rt.ComplyCpuSafe | rt.ComplyMemSafe | rt.ComplyIoSafe | rt.ComplyTimeSafe

const prelude = `
MODE = {}
KIND = {}
function MT() return {__gc = GC} end
function GC(o)
  note("gc", o)
  local id = idof(o)
  local m = MODE[id]
  local x = 0
  for i = 1, 10 do x = x + i end
  if m == "res" then
    MODE[id] = nil
    _G["V" .. id] = o
    note("res", o)
  elseif m == "remark" then
    MODE[id] = nil
    _G["V" .. id] = o
    note("res", o)
    setmetatable(o, MT())
    note("mark", o)
  elseif m == "remarksame" then
    MODE[id] = nil
    _G["V" .. id] = o
    note("res", o)
    setmetatable(o, getmetatable(o))
    note("mark", o)
  elseif m == "spin" then
    while true do end
  elseif m == "kill" then
    runtime.killcontext()
  end
  note("gcend", o)
end
function newT(i, id, mode)
  op(i)
  MODE[id] = mode
  KIND[id] = "T"
  _G["V" .. id] = setmetatable({id = id}, MT())
end
function newU(i, id, hasgc, rel, mode)
  op(i)
  MODE[id] = mode
  KIND[id] = hasgc and "UF" or "U"
  _G["V" .. id] = mkU(id, rel, hasgc and MT() or {})
end
function remark(i, id)
  local v = _G["V" .. id]
  if v == nil then return end
  op(i)
  if KIND[id] == "T" then
    setmetatable(v, MT())
  else
    debug.setmetatable(v, KIND[id] == "UF" and MT() or {})
  end
end
function unmeta(i, id)
  local v = _G["V" .. id]
  if v == nil then return end
  op(i)
  if KIND[id] == "T" then
    setmetatable(v, nil)
  else
    debug.setmetatable(v, nil)
  end
end
function drop(i, id)
  if _G["V" .. id] == nil then return end
  op(i)
  _G["V" .. id] = nil
end
function gcop(i)
  op(i)
  collectgarbage()
end
function step(i)
  op(i)
end
function errop() error("leave by error") end
function killop() runtime.killcontext() end
function loopop() while true do end end
`

var preludeUnit *code.Unit // compiled once per process

func newBMachine() *bmachine { return newBMachineLibs(false) }

// newBMachineLibs: the sequence families need base, debug and runtime only
// (iolib allocates three 64 kB buffers per runtime); the io family loads
// everything.
func newBMachineLibs(all bool) *bmachine {
	r := rt.New(nil)
	runtime.SetFinalizer(r, nil)
	m := &bmachine{r: r, byObj: map[interface{}]*seamReg{}, fn: map[string]rt.Value{}}
	curMachine = m
	if all {
		m.cleanup = lib.LoadAll(r)
	} else {
		m.cleanup = lib.LoadLibs(r, base.LibLoader, packagelib.LibLoader, debuglib.LibLoader, runtimelib.LibLoader)
	}
	env := r.GlobalEnv()
	def := func(name string, nargs int, f func(t *rt.Thread, c *rt.GoCont) (rt.Cont, error)) {
		g := r.SetEnvGoFunc(env, name, f, nargs, false)
		rt.SolemnlyDeclareCompliance(allFlags, g)
	}
	def("note", 2, func(t *rt.Thread, c *rt.GoCont) (rt.Cont, error) {
		k, _ := c.StringArg(0)
		m.noteEvent(string(k), valueID(c.Arg(1)))
		return c.Next(), nil
	})
	def("idof", 1, func(t *rt.Thread, c *rt.GoCont) (rt.Cont, error) {
		return c.PushingNext1(t.Runtime, rt.IntValue(int64(valueID(c.Arg(0))))), nil
	})
	def("op", 1, func(t *rt.Thread, c *rt.GoCont) (rt.Cont, error) {
		i, _ := c.IntArg(0)
		m.opMark(int(i))
		return c.Next(), nil
	})
	def("mkU", 3, func(t *rt.Thread, c *rt.GoCont) (rt.Cont, error) {
		id, _ := c.IntArg(0)
		var meta *rt.Table
		if !c.Arg(2).IsNil() {
			meta, _ = c.TableArg(2)
		}
		var val interface{}
		if rt.Truth(c.Arg(1)) {
			val = &urel{ures{id: int(id), m: m}}
		} else {
			val = &ures{id: int(id), m: m}
		}
		u := t.Runtime.NewUserDataValue(val, meta)
		m.notePool()
		return c.PushingNext1(t.Runtime, u), nil
	})
	def("fire", 2, func(t *rt.Thread, c *rt.GoCont) (rt.Cont, error) {
		i, _ := c.IntArg(0)
		id, _ := c.IntArg(1)
		m.fire(int(i), int(id))
		return c.Next(), nil
	})
	def("enter", 1, func(t *rt.Thread, c *rt.GoCont) (rt.Cont, error) {
		i, _ := c.IntArg(0)
		m.logNow("enter", int(i))
		return c.Next(), nil
	})
	def("bodyend", 1, func(t *rt.Thread, c *rt.GoCont) (rt.Cont, error) {
		i, _ := c.IntArg(0)
		m.logNow("bodyend", int(i))
		return c.Next(), nil
	})
	def("after", 2, func(t *rt.Thread, c *rt.GoCont) (rt.Cont, error) {
		i, _ := c.IntArg(0)
		u, ok := c.Arg(1).TryUserData()
		if !ok {
			m.log = append(m.log, rawEntry{kind: "after", id: int(i), status: "?"})
			return c.Next(), nil
		}
		ctx, _ := u.Value().(rt.RuntimeContext)
		m.logAfter(int(i), ctx)
		return c.Next(), nil
	})
	if preludeUnit == nil {
		u, _, err := r.CompileLuaChunk("prelude", []byte(prelude))
		if err != nil {
			panic("prelude: " + err.Error())
		}
		preludeUnit = u
	}
	clos := r.LoadLuaUnit(preludeUnit, rt.TableValue(env))
	if err := rt.Call(r.MainThread(), rt.FunctionValue(clos), nil, rt.NewTerminationWith(nil, 0, false)); err != nil {
		panic("prelude: " + err.Error())
	}
	for _, n := range []string{"newT", "newU", "remark", "unmeta", "drop", "gcop", "step", "errop", "killop", "loopop"} {
		m.fn[n] = env.Get(rt.StringValue(n))
	}
	m.notePool()
	return m
}

func (m *bmachine) logAfter(inst int, ctx rt.RuntimeContext) {
	e := rawEntry{kind: "after", id: inst, status: "?"}
	if !isNilCtx(ctx) {
		e.status = ctx.Status().String()
		e.cpu = ctx.UsedResources().Cpu
	}
	m.log = append(m.log, e)
	m.notePool()
}

func (m *bmachine) noteEvent(kind string, id int) {
	switch kind {
	case "res":
		if id > 0 && id <= maxVals {
			m.held[id] = true
		}
	}
	m.logNow(kind, id)
}

// retained lists the tables / userdata referenced by the structure of any pool
// seen so far (such an object is reachable for Go: its finaliser cannot run).
func (m *bmachine) retained() map[interface{}]bool {
	out := map[interface{}]bool{}
	seen := map[uintptr]bool{}
	tT, tU := reflect.TypeOf(&rt.Table{}), reflect.TypeOf(&rt.UserData{})
	byAddr := map[uintptr]interface{}{}
	for _, r := range m.regs {
		byAddr[reflect.ValueOf(r.obj).Pointer()] = r.obj
	}
	var walk func(v reflect.Value)
	walk = func(v reflect.Value) {
		switch v.Kind() {
		case reflect.Ptr:
			if v.IsNil() {
				return
			}
			p := v.Pointer()
			if v.Type() == tT || v.Type() == tU {
				if o, ok := byAddr[p]; ok {
					out[o] = true
				}
				return // the Lua object graph is not the pool's structure
			}
			if !strings.HasSuffix(v.Type().Elem().PkgPath(), "internal/luagc") {
				return // only the pool's own structure (keys are arbitrary Go values)
			}
			if seen[p] {
				return
			}
			seen[p] = true
			walk(v.Elem())
		case reflect.Interface:
			if !v.IsNil() {
				walk(v.Elem())
			}
		case reflect.Struct:
			if !strings.HasSuffix(v.Type().PkgPath(), "internal/luagc") {
				return
			}
			for i := 0; i < v.NumField(); i++ {
				walk(v.Field(i))
			}
		case reflect.Map:
			it := v.MapRange()
			for it.Next() {
				walk(it.Key())
				walk(it.Value())
			}
		case reflect.Slice, reflect.Array:
			if v.Kind() == reflect.Slice && v.IsNil() {
				return
			}
			for i := 0; i < v.Len(); i++ {
				walk(v.Index(i))
			}
		}
	}
	for _, p := range m.pools {
		walk(reflect.ValueOf(p))
	}
	return out
}

// fire is the environment event "Go collected value id": the oldest object of
// that value that carries a Go finaliser and is unreachable (the program
// dropped the value, no pool references the object) has its finaliser run.
func (m *bmachine) fire(i, id int) {
	m.opMark(i)
	if id <= 0 || id > maxVals || m.held[id] {
		return
	}
	var ret map[interface{}]bool
	for _, reg := range m.regs {
		if reg.id != id || reg.fin == nil {
			continue
		}
		if ret == nil {
			ret = m.retained()
		}
		if ret[reg.obj] {
			continue
		}
		fin := reg.fin
		reg.fin = nil // Go clears the finaliser before running it
		m.fires++
		switch o := reg.obj.(type) {
		case *rt.Table:
			fin.(func(rt.VerifGCValue))(o)
		case *rt.UserData:
			fin.(func(rt.VerifGCValue))(o)
		}
		return
	}
}

func (m *bmachine) call(name string, args ...rt.Value) error {
	return rt.Call(m.r.MainThread(), m.fn[name], args, rt.NewTerminationWith(nil, 0, false))
}

func iv(n int) rt.Value { return rt.IntValue(int64(n)) }

func modeVal(k uint8) rt.Value {
	if s := kindMode(k); s != "" {
		return rt.StringValue(s)
	}
	return rt.NilValue
}

// ---------------------------------------------------------------- the two renderings

func matchLeave(ops []bop, enter int) int {
	d := 0
	for j := enter + 1; j < len(ops); j++ {
		switch ops[j].k {
		case oEnter:
			d++
		case oLeave:
			if d == 0 {
				return j
			}
			d--
		}
	}
	return len(ops)
}

// instOf numbers the contexts in order of their enter operation.
func instOf(ops []bop, enter int) int {
	n := 0
	for j := 0; j <= enter; j++ {
		if ops[j].k == oEnter {
			n++
		}
	}
	return n
}

func luaMode(k uint8) string {
	if s := kindMode(k); s != "" {
		return fmt.Sprintf("%q", s)
	}
	return "nil"
}

func renderLua(ops []bop) string {
	var sb strings.Builder
	var rec func(from, to int, indent string)
	rec = func(from, to int, indent string) {
		depth := len(indent) / 2
		for i := from; i < to; i++ {
			o := ops[i]
			id := int(o.v) + 1
			sb.WriteString(indent)
			switch o.k {
			case oNew:
				if kindTable(o.a) {
					fmt.Fprintf(&sb, "newT(%d, %d, %s)\n", i, id, luaMode(o.a))
				} else {
					fmt.Fprintf(&sb, "newU(%d, %d, %v, %v, %s)\n", i, id, kindF(o.a), kindR(o.a), luaMode(o.a))
				}
			case oRemark:
				fmt.Fprintf(&sb, "remark(%d, %d)\n", i, id)
			case oUnmeta:
				fmt.Fprintf(&sb, "unmeta(%d, %d)\n", i, id)
			case oDrop:
				fmt.Fprintf(&sb, "drop(%d, %d)\n", i, id)
			case oFire:
				fmt.Fprintf(&sb, "fire(%d, %d)\n", i, id)
			case oGC:
				fmt.Fprintf(&sb, "gcop(%d)\n", i)
			case oStep:
				fmt.Fprintf(&sb, "step(%d)\n", i)
			case oEnter:
				end := matchLeave(ops, i)
				inst := instOf(ops, i)
				fmt.Fprintf(&sb, "local c%d = runtime.callcontext(%s, function()\n", inst, ctxLua(o.a, depth))
				fmt.Fprintf(&sb, "%s  enter(%d)\n", indent, inst)
				rec(i+1, end, indent+"  ")
				fmt.Fprintf(&sb, "%s  bodyend(%d)\n", indent, inst)
				mode := uint8(lRet)
				if end < len(ops) {
					mode = ops[end].a
				}
				switch mode {
				case lErr:
					fmt.Fprintf(&sb, "%s  errop()\n", indent)
				case lKill:
					fmt.Fprintf(&sb, "%s  killop()\n", indent)
				case lLoop:
					fmt.Fprintf(&sb, "%s  loopop()\n", indent)
				}
				fmt.Fprintf(&sb, "%send)\n%safter(%d, c%d)\n", indent, indent, inst, inst)
				i = end
			}
		}
	}
	rec(0, len(ops), "")
	return sb.String()
}

func (m *bmachine) runLua(ops []bop) (status string) {
	src := renderLua(ops)
	clos, err := m.r.CompileAndLoadLuaChunk("case", []byte(src), rt.TableValue(m.r.GlobalEnv()))
	if err != nil {
		return "compile: " + err.Error()
	}
	if err := rt.Call(m.r.MainThread(), rt.FunctionValue(clos), nil, rt.NewTerminationWith(nil, 0, false)); err != nil {
		return "error: " + err.Error()
	}
	return ""
}

func (m *bmachine) runGo(ops []bop, from, to int) (status string) {
	depth := 0
	for j := 0; j < from; j++ {
		switch ops[j].k {
		case oEnter:
			depth++
		case oLeave:
			depth--
		}
	}
	for i := from; i < to; i++ {
		o := ops[i]
		id := int(o.v) + 1
		var err error
		switch o.k {
		case oNew:
			if kindTable(o.a) {
				err = m.call("newT", iv(i), iv(id), modeVal(o.a))
			} else {
				err = m.call("newU", iv(i), iv(id), rt.BoolValue(kindF(o.a)), rt.BoolValue(kindR(o.a)), modeVal(o.a))
			}
		case oRemark:
			err = m.call("remark", iv(i), iv(id))
		case oUnmeta:
			err = m.call("unmeta", iv(i), iv(id))
		case oDrop:
			err = m.call("drop", iv(i), iv(id))
		case oFire:
			m.fire(i, id) // no VM step: Go's collector acts between two operations of the host program
		case oGC:
			err = m.call("gcop", iv(i))
		case oStep:
			err = m.call("step", iv(i))
		case oEnter:
			end := matchLeave(ops, i)
			inst := instOf(ops, i)
			mode := uint8(lRet)
			if end < len(ops) {
				mode = ops[end].a
			}
			inner := ""
			ctx, _ := m.r.MainThread().CallContext(ctxDef(o.a, depth), func() error {
				m.logNow("enter", inst)
				inner = m.runGo(ops, i+1, end)
				if m.autoStep {
					m.call("step", iv(-1))
				}
				m.logNow("bodyend", inst)
				switch mode {
				case lErr:
					return m.call("errop")
				case lKill:
					return m.call("killop")
				case lLoop:
					return m.call("loopop")
				}
				return nil
			})
			m.logAfter(inst, ctx)
			if inner != "" {
				return inner
			}
			i = end
		}
		if err != nil {
			return "error: " + err.Error()
		}
	}
	return ""
}

// ---------------------------------------------------------------- judging one run

type runResult struct {
	clauses []string
	log     []rawEntry
	status  string
	fires   int
	monitor string
}

func (m *bmachine) translate(ops []bop) []refgc.RTEvent {
	var out []refgc.RTEvent
	for _, e := range m.log {
		ev := refgc.RTEvent{Kind: e.kind, ID: e.id, Depth: e.depth, Status: e.status, CPU: e.cpu}
		switch e.kind {
		case "op":
			if e.id < 0 || e.id >= len(ops) {
				ev.Kind = "sep"
				break
			}
			o := ops[e.id]
			ev.ID = int(o.v) + 1
			switch o.k {
			case oNew, oRemark:
				ev.Kind, ev.Fin, ev.Rel = "mark", kindF(o.a), kindR(o.a)
				if o.k == oRemark {
					k := kindOf(ops, o.v)
					ev.Fin, ev.Rel = kindF(k), kindR(k)
				}
			case oUnmeta:
				k := kindOf(ops, o.v)
				if kindTable(k) || !kindR(k) {
					ev.Kind = "unmeta"
				} else {
					// SetRawMetatable(u, nil) re-marks a releasing userdata for release only
					ev.Kind, ev.Fin, ev.Rel = "mark", false, true
				}
			case oDrop:
				ev.Kind = "drop"
			default:
				ev.Kind = "sep"
			}
		case "mark":
			// from a finaliser that re-marks (tables only)
			ev.Fin, ev.Rel = true, false
		case "enter":
			k := ctxKindOf(ops, e.id)
			ev.Isolate = k != cSoft
			ev.CPUTracked = k != cMem
		}
		out = append(out, ev)
	}
	return out
}

func kindOf(ops []bop, v uint8) uint8 {
	for _, o := range ops {
		if o.k == oNew && o.v == v {
			return o.a
		}
	}
	return 0
}

func ctxKindOf(ops []bop, inst int) uint8 {
	n := 0
	for _, o := range ops {
		if o.k == oEnter {
			n++
			if n == inst {
				return o.a
			}
		}
	}
	return 0
}

// runCase runs ops on a fresh runtime through the given rendering, closes the
// runtime and judges the log.
func runCase(ops []bop, via string) (res runResult) {
	m := newBMachine()
	defer func() { curMachine = nil }()
	func() {
		defer func() {
			if p := recover(); p != nil {
				res.status = fmt.Sprint("go-panic: ", p)
			}
		}()
		// the harness tracks which values the program holds (for gcfire)
		m.trackHeld(ops)
		if via == "lua" {
			res.status = m.runLua(ops)
		} else {
			m.autoStep = via == "gostep"
			res.status = m.runGo(ops, 0, len(ops))
			if m.autoStep {
				m.call("step", iv(-1))
			}
		}
		m.logNow("closebegin", 0)
		m.r.Close(nil)
		if m.cleanup != nil {
			m.cleanup()
		}
		m.log = append(m.log, rawEntry{kind: "closeend"})
	}()
	mon := refgc.NewRTMon()
	for _, ev := range m.translate(ops) {
		mon.Feed(ev)
	}
	res.clauses = append(res.clauses, mon.Clauses()...)
	seen := map[string]bool{}
	for _, b := range m.seamBad {
		if !seen[b] {
			seen[b] = true
			res.clauses = append(res.clauses, b)
		}
	}
	if strings.HasPrefix(res.status, "go-panic") {
		res.clauses = append(res.clauses, "go-panic")
	} else if res.status != "" {
		res.clauses = append(res.clauses, "internal-unexpected-lua-error")
	}
	res.log = m.log
	res.fires = m.fires
	res.monitor = mon.String()
	runtime.KeepAlive(m)
	return
}

func (m *bmachine) trackHeld(ops []bop) { m.opsRef = ops }

// opMark logs the marker of operation i (it is really being executed) and
// keeps the harness's own view of which values the program holds.
func (m *bmachine) opMark(i int) {
	if i >= 0 && i < len(m.opsRef) {
		o := m.opsRef[i]
		switch o.k {
		case oNew:
			m.held[o.v+1] = true
		case oDrop:
			m.held[o.v+1] = false
		}
	}
	m.logNow("op", i)
}
