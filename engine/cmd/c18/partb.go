package main

import "verif/engine/core"

type bmachine struct{}

var curMachine *bmachine

func (m *bmachine) seam(obj, fin interface{}) {}

func partBFamilies(tier string) []*core.Family { return nil }
