package main

import ("testing";"fmt";"runtime";"runtime/debug")

func TestCanon(t *testing.T) {
	r := replay("clone", []uint8{evMark + 2, evMark + 4, evDrop, evFire, evXPF})
	c := r.w.canon()
	fmt.Println(len(c), c)
	r = replay("unsafe", []uint8{evMark + 2, evMark + 4, evDrop, evFire, evXPF})
	c = r.w.canon()
	fmt.Println(len(c), c)
}


func init() { installSeam(); ballast = make([]byte, 256<<20); debug.SetGCPercent(100); runtime.GOMAXPROCS(1) }
