package main

// Part A: explicit-state search (E2) on the real ClonePool / UnsafePool with
// the Go finaliser seam.  State = event history; successor = replay on a fresh
// pool + one event; the refgc ledger runs in lock step and is consulted at
// every extraction.

import (
	"os"
	"crypto/md5"
	"fmt"
	"reflect"
	"sort"
	"strings"

	rt "github.com/arnodel/golua/runtime"

	"verif/engine/core"
	"verif/engine/refgc"
)

const nVals = 3

// val is the pool value.  Key is shared by a value and its clones; Clone makes
// a new object.  Two ints: 16 bytes, so every object has its own address.
type val struct {
	k   int
	gen int
}

func (v *val) Key() rt.VerifGCKey { return v.k }
func (v *val) Clone() rt.VerifGCValue {
	w := curWorld
	c := &val{k: v.k, gen: len(w.all)}
	w.all = append(w.all, c)
	return c
}

// world is one replay: a fresh pool, the objects made so far (all kept alive:
// UnsafePool stores disguised pointers), the finaliser registrations recorded
// by the seam and the program side (which object it knows, whether it holds
// it).
type world struct {
	poolKind string
	pool     rt.VerifGCPool
	all      []*val
	fins     map[*val]interface{}
	obj      [nVals]*val
	held     [nVals]bool
	handed   [nVals]*val // handed out by the latest finalise extraction; resurrectable
	lastRes  int
	touched  int // number of values touched so far (symmetry reduction)
	phase    int
	led      *refgc.Ledger
	multi    bool // more than one collectable object with a finaliser for one key was seen
	twice    bool // a finaliser was registered on an object that already had one
}

var curWorld *world

func seam(obj interface{}, fin interface{}) {
	w := curWorld
	if w == nil {
		panic("finaliser seam used outside a replay")
	}
	v, ok := obj.(*val)
	if !ok {
		panic(fmt.Sprintf("finaliser seam: unexpected object %T", obj))
	}
	if fin == nil {
		delete(w.fins, v)
		return
	}
	if w.fins[v] != nil {
		w.twice = true // the real runtime.SetFinalizer throws "finalizer already set"
	}
	w.fins[v] = fin
}

func newWorld(poolKind string) *world {
	w := &world{poolKind: poolKind, fins: map[*val]interface{}{}, led: refgc.New(nVals), lastRes: -1}
	curWorld = w
	switch poolKind {
	case "clone":
		w.pool = rt.VerifNewClonePool()
	case "unsafe":
		w.pool = rt.VerifNewUnsafePool()
	default:
		panic("pool kind")
	}
	for k := 0; k < nVals; k++ {
		v := &val{k: k, gen: len(w.all)}
		w.all = append(w.all, v)
		w.obj[k] = v
		w.held[k] = true
	}
	return w
}

// ---------------------------------------------------------------- events

// event encoding: 0..4n-1 Mark(k, flags) ; then drop k, fire k, res k ; then 4 extractions.
const (
	evMark    = 0
	evDrop    = 4 * nVals
	evFire    = evDrop + nVals
	evRes     = evFire + nVals
	evXPF     = evRes + nVals
	evXPR     = evXPF + 1
	evXAF     = evXPF + 2
	evXAR     = evXPF + 3
	nEvents   = evXPF + 4
	flagsNone = 0
)

// the four flag choices, simplest first
var flagChoice = [4]rt.VerifGCFlags{rt.VerifGCFinalize, rt.VerifGCRelease, rt.VerifGCFinalize | rt.VerifGCRelease, 0}
var flagName = [4]string{"F", "R", "FR", "0"}

func evName(e int, rename func(int) int) string {
	n := func(k int) string { return fmt.Sprintf("v%d", rename(k)+1) }
	switch {
	case e < evDrop:
		return "mark " + n(e/4) + " " + flagName[e%4]
	case e < evFire:
		return "drop " + n(e-evDrop)
	case e < evRes:
		return "gcfire " + n(e-evFire)
	case e < evXPF:
		return "resurrect " + n(e-evRes)
	case e == evXPF:
		return "pendingF"
	case e == evXPR:
		return "pendingR"
	case e == evXAF:
		return "allF"
	case e == evXAR:
		return "allR"
	}
	return "?"
}

func evVal(e int) int {
	switch {
	case e < evDrop:
		return e / 4
	case e < evFire:
		return e - evDrop
	case e < evRes:
		return e - evFire
	case e < evXPF:
		return e - evRes
	}
	return -1
}

func ident(k int) int { return k }

func histStr(h []uint8) string {
	parts := make([]string, len(h))
	for i, e := range h {
		parts[i] = evName(int(e), ident)
	}
	return strings.Join(parts, "; ")
}

// canonHist renames the values by first appearance.
func canonHist(h []uint8) string {
	ren := map[int]int{}
	f := func(k int) int {
		if r, ok := ren[k]; ok {
			return r
		}
		ren[k] = len(ren)
		return ren[k]
	}
	parts := make([]string, len(h))
	for i, e := range h {
		parts[i] = evName(int(e), f)
	}
	return strings.Join(parts, "; ")
}

// poolRetains reports the pool objects reachable from the pool structure
// itself (Go reachability: such an object cannot be collected, so its Go
// finaliser cannot run).  Integers (UnsafePool's disguised pointers) are not
// references.
func (w *world) poolRetained() map[*val]bool {
	addr := map[uintptr]*val{}
	for _, v := range w.all {
		addr[reflect.ValueOf(v).Pointer()] = v
	}
	out := map[*val]bool{}
	seen := map[uintptr]bool{}
	var walk func(v reflect.Value)
	walk = func(v reflect.Value) {
		switch v.Kind() {
		case reflect.Ptr:
			if v.IsNil() {
				return
			}
			p := v.Pointer()
			if x, ok := addr[p]; ok {
				out[x] = true
				return
			}
			if seen[p] {
				return
			}
			seen[p] = true
			walk(v.Elem())
		case reflect.Interface:
			if !v.IsNil() {
				walk(v.Elem())
			}
		case reflect.Struct:
			for i := 0; i < v.NumField(); i++ {
				walk(v.Field(i))
			}
		case reflect.Map:
			it := v.MapRange()
			for it.Next() {
				walk(it.Key())
				walk(it.Value())
			}
		case reflect.Slice, reflect.Array:
			if v.Kind() == reflect.Slice && v.IsNil() {
				return
			}
			for i := 0; i < v.Len(); i++ {
				walk(v.Index(i))
			}
		}
	}
	walk(reflect.ValueOf(w.pool))
	return out
}

// collectable returns the object of key k whose Go finaliser may run now: it
// has a registered finaliser, the program does not hold it, no finaliser that
// was just handed it is running, and the pool does not reference it.
func (w *world) collectable(k int) *val {
	var ret map[*val]bool
	var found *val
	for _, o := range w.all {
		if o.k != k || w.fins[o] == nil {
			continue
		}
		if w.held[k] && w.obj[k] == o {
			continue
		}
		if w.handed[k] == o {
			continue
		}
		if ret == nil {
			ret = w.poolRetained()
		}
		if ret[o] {
			continue
		}
		if found != nil {
			w.multi = true
			continue
		}
		found = o
	}
	return found
}

func (w *world) enabled(e int) bool {
	if w.phase >= refgc.Released {
		return false
	}
	// symmetry: the values are interchangeable, so v(k+1) is only touched
	// after v(k) has been (every history is a renaming of such a history)
	if k := evVal(e); k > w.touched && !symOff {
		return false
	}
	switch {
	case e < evDrop:
		return w.held[e/4]
	case e < evFire:
		return w.held[e-evDrop]
	case e < evRes:
		return w.collectable(e-evFire) != nil
	case e < evXPF:
		k := e - evRes
		// (after allF a clone may have been handed out for a value the
		// program still holds: re-holding it changes nothing)
		return w.handed[k] != nil && k > w.lastRes && !w.held[k]
	case e == evXPF, e == evXPR:
		// the runtime never extracts pending batches between the two close
		// steps (close-time finalisers run on the gc thread)
		return w.phase == refgc.Running
	case e == evXAF:
		return w.phase == refgc.Running
	case e == evXAR:
		return w.phase == refgc.Closing
	}
	return false
}

// keysOf maps a returned batch to value indices (-1: not one of ours).
func keysOf(vals []rt.VerifGCValue) ([]int, string) {
	ks := make([]int, len(vals))
	for i, x := range vals {
		v, ok := x.(*val)
		if !ok || v == nil {
			return nil, fmt.Sprintf("foreign-object(%T)", x)
		}
		ks[i] = v.k
	}
	return ks, ""
}

// apply executes one enabled event on the real pool and the ledger; it returns
// the violated clauses and a rendering of what the pool returned.
func (w *world) apply(e int) (bad []string, result string) {
	defer func() {
		if p := recover(); p != nil {
			bad = append(bad, "go-panic")
			result = fmt.Sprint("panic: ", p)
		}
		if w.twice {
			w.twice = false
			bad = append(bad, "go-setfinalizer-twice")
		}
	}()
	if k := evVal(e); k == w.touched {
		w.touched++
	}
	isRes := e >= evRes && e < evXPF
	if !isRes {
		// the finaliser batch is over: what was not resurrected is dropped
		w.handed = [nVals]*val{}
		w.lastRes = -1
	}
	switch {
	case e < evDrop:
		k, f := e/4, flagChoice[e%4]
		w.pool.Mark(w.obj[k], f)
		w.led.Mark(k, f&rt.VerifGCFinalize != 0, f&rt.VerifGCRelease != 0)
	case e < evFire:
		k := e - evDrop
		w.held[k] = false
		w.led.Drop(k)
	case e < evRes:
		o := w.collectable(e - evFire)
		fin := w.fins[o]
		delete(w.fins, o) // Go clears the finaliser before running it
		fin.(func(rt.VerifGCValue))(o)
	case e < evXPF:
		k := e - evRes
		w.obj[k] = w.handed[k]
		w.handed[k] = nil
		w.held[k] = true
		w.lastRes = k
		w.led.Resurrect(k)
	default:
		var vals []rt.VerifGCValue
		var b refgc.Batch
		switch e {
		case evXPF:
			vals, b = w.pool.ExtractPendingFinalize(), refgc.PendingFinalize
		case evXPR:
			vals, b = w.pool.ExtractPendingRelease(), refgc.PendingRelease
		case evXAF:
			vals, b = w.pool.ExtractAllMarkedFinalize(), refgc.AllFinalize
			w.phase = refgc.Closing
		case evXAR:
			vals, b = w.pool.ExtractAllMarkedRelease(), refgc.AllRelease
			w.phase = refgc.Released
		}
		ks, foreign := keysOf(vals)
		if foreign != "" {
			return []string{foreign}, foreign
		}
		names := make([]string, len(ks))
		for i, k := range ks {
			names[i] = fmt.Sprintf("v%d", k+1)
		}
		result = "[" + strings.Join(names, " ") + "]"
		bad = w.led.Hand(b, ks)
		if b == refgc.PendingFinalize || b == refgc.AllFinalize {
			for i, x := range vals {
				w.handed[ks[i]] = x.(*val)
			}
		}
	}
	return
}

// ---------------------------------------------------------------- canonical state

// canon renders everything the future depends on: the concrete pool (every
// field, by reflection), the finaliser registrations, the program side and the
// ledger.  Objects are named per key by their rank among the objects that are
// still referenced from anywhere (a pure renaming of identities).
func (w *world) canon() string {
	addr := map[uintptr]*val{}
	for _, v := range w.all {
		addr[reflect.ValueOf(v).Pointer()] = v
	}
	used := map[*val]bool{}
	for k := 0; k < nVals; k++ {
		used[w.obj[k]] = true
		if w.handed[k] != nil {
			used[w.handed[k]] = true
		}
	}
	for o := range w.fins {
		used[o] = true
	}
	// pass 1: collect objects referenced by the pool (pointers and disguised pointers)
	seen := map[uintptr]bool{}
	var collect func(v reflect.Value)
	collect = func(v reflect.Value) {
		switch v.Kind() {
		case reflect.Ptr:
			if v.IsNil() {
				return
			}
			p := v.Pointer()
			if x, ok := addr[p]; ok {
				used[x] = true
				return
			}
			if seen[p] {
				return
			}
			seen[p] = true
			collect(v.Elem())
		case reflect.Interface:
			if !v.IsNil() {
				collect(v.Elem())
			}
		case reflect.Struct:
			for i := 0; i < v.NumField(); i++ {
				collect(v.Field(i))
			}
		case reflect.Map:
			it := v.MapRange()
			for it.Next() {
				collect(it.Key())
				collect(it.Value())
			}
		case reflect.Slice, reflect.Array:
			for i := 0; i < v.Len(); i++ {
				collect(v.Index(i))
			}
		case reflect.Uintptr:
			if x, ok := addr[uintptr(v.Uint())]; ok {
				used[x] = true
			}
		}
	}
	collect(reflect.ValueOf(w.pool))
	name := map[*val]string{}
	cnt := [nVals]int{}
	for _, o := range w.all { // ascending creation order
		if used[o] {
			name[o] = fmt.Sprintf("%d%c", o.k+1, 'a'+cnt[o.k])
			cnt[o.k]++
		}
	}
	// pass 2: render
	seen = map[uintptr]bool{}
	var dump func(v reflect.Value) string
	dump = func(v reflect.Value) string {
		switch v.Kind() {
		case reflect.Ptr:
			if v.IsNil() {
				return "nil"
			}
			p := v.Pointer()
			if x, ok := addr[p]; ok {
				return name[x]
			}
			if seen[p] {
				return "^"
			}
			seen[p] = true
			return "&" + dump(v.Elem())
		case reflect.Interface:
			if v.IsNil() {
				return "nil"
			}
			return dump(v.Elem())
		case reflect.Struct:
			if v.Type().PkgPath() == "sync" {
				return "mx"
			}
			var sb strings.Builder
			sb.WriteByte('{')
			for i := 0; i < v.NumField(); i++ {
				if i > 0 {
					sb.WriteByte(' ')
				}
				sb.WriteString(v.Type().Field(i).Name)
				sb.WriteByte(':')
				sb.WriteString(dump(v.Field(i)))
			}
			sb.WriteByte('}')
			return sb.String()
		case reflect.Map:
			if v.IsNil() {
				return "nilmap"
			}
			var items []string
			it := v.MapRange()
			for it.Next() {
				items = append(items, dump(it.Key())+"=>"+dump(it.Value()))
			}
			sort.Strings(items)
			return "map[" + strings.Join(items, ", ") + "]"
		case reflect.Slice, reflect.Array:
			if v.Kind() == reflect.Slice && v.IsNil() {
				return "nilslice"
			}
			items := make([]string, v.Len())
			for i := range items {
				items[i] = dump(v.Index(i))
			}
			return "[" + strings.Join(items, " ") + "]"
		case reflect.Uintptr:
			if x, ok := addr[uintptr(v.Uint())]; ok {
				return "@" + name[x]
			}
			return "#"
		case reflect.Int, reflect.Int8, reflect.Int16, reflect.Int32, reflect.Int64:
			return fmt.Sprint(v.Int())
		case reflect.Uint, reflect.Uint8, reflect.Uint16, reflect.Uint32, reflect.Uint64:
			return fmt.Sprint(v.Uint())
		case reflect.Bool:
			return fmt.Sprint(v.Bool())
		case reflect.String:
			return v.String()
		case reflect.Func:
			return "fn"
		}
		return "?" + v.Kind().String()
	}
	var sb strings.Builder
	sb.Grow(768)
	sb.WriteString(dump(reflect.ValueOf(w.pool)))
	sb.WriteString(" | fins:")
	var fs []string
	for o := range w.fins {
		fs = append(fs, name[o])
	}
	sort.Strings(fs)
	sb.WriteString(strings.Join(fs, ","))
	sb.WriteString(" | prog:")
	for k := 0; k < nVals; k++ {
		h := "d"
		if w.held[k] {
			h = "h"
		}
		fmt.Fprintf(&sb, " %s%s", name[w.obj[k]], h)
		if w.handed[k] != nil {
			sb.WriteString("+" + name[w.handed[k]])
		}
	}
	fmt.Fprintf(&sb, " lr%d ph%d t%d | ", w.lastRes, w.phase, w.touched)
	sb.WriteString(w.led.String())
	return sb.String()
}

// ---------------------------------------------------------------- replay, minimise

type replayResult struct {
	w       *world
	ok      bool     // every event was enabled
	bad     []string // clauses violated by the LAST event
	early   bool     // a violation occurred before the last event
	results []string
}

func replay(poolKind string, h []uint8) replayResult {
	w := newWorld(poolKind)
	r := replayResult{w: w, ok: true}
	for i, e := range h {
		if !w.enabled(int(e)) {
			r.ok = false
			return r
		}
		bad, res := w.apply(int(e))
		r.results = append(r.results, res)
		if len(bad) > 0 {
			if i < len(h)-1 {
				r.early = true
				return r
			}
			r.bad = bad
		}
	}
	return r
}

func hasClause(bad []string, c string) bool {
	for _, b := range bad {
		if b == c {
			return true
		}
	}
	return false
}

// clauseName strips the value from "clause(v2)".
func clauseName(c string) (string, int) {
	i := strings.IndexByte(c, '(')
	if i < 0 {
		return c, -1
	}
	var k int
	fmt.Sscanf(c[i:], "(v%d)", &k)
	return c[:i], k - 1
}

// symOff disables the symmetry restriction (the minimiser may delete the
// events that touched v1 first).
var symOff bool

// minimise removes windows of events (longest first, to a fixpoint) while the
// history stays valid, violation free before its last event, and the last
// event still violates the same clause (for some value); then simplifies FR
// marks to F or R.
func minimise(poolKind string, h []uint8, clause string) ([]uint8, string) {
	symOff = true
	defer func() { symOff = false }()
	cn, _ := clauseName(clause)
	still := func(c []uint8) (bool, string) {
		r := replay(poolKind, c)
		if !r.ok || r.early {
			return false, ""
		}
		for _, b := range r.bad {
			if n, _ := clauseName(b); n == cn {
				return true, b
			}
		}
		return false, ""
	}
	cur := append([]uint8(nil), h...)
	curClause := clause
	for changed := true; changed; {
		changed = false
	windows:
		for l := len(cur) - 1; l >= 1; l-- {
			for i := 0; i+l <= len(cur)-1; i++ {
				c := append(append([]uint8(nil), cur[:i]...), cur[i+l:]...)
				if ok, b := still(c); ok {
					cur, curClause, changed = c, b, true
					break windows
				}
			}
		}
		if changed {
			continue
		}
		for i := 0; i < len(cur); i++ {
			e := int(cur[i])
			if e < evDrop && e%4 == 2 {
				for _, f := range []int{0, 1} {
					c := append([]uint8(nil), cur...)
					c[i] = uint8(e/4*4 + f)
					if ok, b := still(c); ok {
						cur, curClause, changed = c, b, true
						break
					}
				}
			}
		}
	}
	return cur, curClause
}

// ---------------------------------------------------------------- search

type searcher struct {
	poolKind string
	states   map[[16]byte]struct{} // 128-bit digests of the canonical states
	trans    uint64
	viols    map[string]string
	order    []string
	aborted  bool
	sig      uint64
	multi    bool
}

func (s *searcher) report(h []uint8, clause string, results []string) {
	mh, mc := minimise(s.poolKind, h, clause)
	cn, cv := clauseName(mc)
	// rename values by first appearance in the minimal history
	ren := map[int]int{}
	for _, e := range mh {
		if k := evVal(int(e)); k >= 0 {
			if _, ok := ren[k]; !ok {
				ren[k] = len(ren)
			}
		}
	}
	cvs := ""
	if cv >= 0 {
		r, ok := ren[cv]
		if !ok {
			r = cv
		}
		cvs = fmt.Sprintf("(v%d)", r+1)
	}
	key := fmt.Sprintf("A pool=%s hist=[%s] clause=%s%s", s.poolKind, canonHist(mh), cn, cvs)
	if _, ok := s.viols[key]; ok {
		return
	}
	r := replay(s.poolKind, mh)
	var steps []string
	for i, e := range mh {
		res := ""
		if i < len(r.results) && r.results[i] != "" {
			res = " -> " + r.results[i]
		}
		steps = append(steps, evName(int(e), ident)+res)
	}
	s.viols[key] = fmt.Sprintf("pool %s; minimal history (from a fresh pool): %s\nviolated: %v\nfound as: %s\nledger after: %s\npool after: %s",
		s.poolKind, strings.Join(steps, "; "), r.bad, histStr(h), r.w.led.String(), r.w.canon())
	s.order = append(s.order, key)
}

// step replays h+e (e is enabled after h); it returns the canonical state and
// the events enabled in it, or ok=false when the successor is not to be
// expanded (violation: reported).
func (s *searcher) step(h []uint8, e uint8, wantEnabled bool) (canon string, en []uint8, ok bool) {
	nh := append(append(make([]uint8, 0, len(h)+1), h...), e)
	r := replay(s.poolKind, nh)
	s.trans++
	if r.w.multi {
		s.multi = true
	}
	if !r.ok {
		panic("internal: replay of an enabled history is not enabled: " + histStr(nh))
	}
	if r.early {
		return "", nil, false
	}
	if len(r.bad) > 0 {
		for _, c := range r.bad {
			s.report(nh, c, r.results)
		}
		return "", nil, false
	}
	canon = r.w.canon()
	if wantEnabled {
		en = r.w.enabledList()
	}
	return canon, en, true
}

func (w *world) enabledList() []uint8 {
	var out []uint8
	for e := 0; e < nEvents; e++ {
		if w.enabled(e) {
			out = append(out, uint8(e))
		}
	}
	return out
}

func digest(s string) [16]byte { return md5.Sum([]byte(s)) }

type node struct {
	hist []uint8
	en   []uint8
}

func (s *searcher) run(prefix []uint8, more int) {
	// the prefix itself, event by event (a violation inside the prefix ends the case)
	var h []uint8
	canon := ""
	en := newWorld(s.poolKind).enabledList()
	for _, e := range prefix {
		isEn := false
		for _, x := range en {
			if x == e {
				isEn = true
			}
		}
		if !isEn {
			return
		}
		var ok bool
		canon, en, ok = s.step(h, e, true)
		if !ok {
			return
		}
		h = append(h, e)
	}
	s.states[digest(canon)] = struct{}{}
	s.sig = core.Hash64(canon)
	frontier := []node{{hist: h, en: en}}
	for d := 0; d < more; d++ {
		var next []node
		last := d+1 == more
		for _, n := range frontier {
			if core.Expired() {
				s.aborted = true
				return
			}
			for _, e := range n.en {
				c, en, ok := s.step(n.hist, e, !last)
				if !ok {
					continue
				}
				dg := digest(c)
				if _, seen := s.states[dg]; seen {
					continue
				}
				s.states[dg] = struct{}{}
				if !last {
					nh := append(append(make([]uint8, 0, len(n.hist)+1), n.hist...), e)
					next = append(next, node{hist: nh, en: en})
				}
			}
		}
		frontier = next
	}
}

func (s *searcher) outcome() core.Outcome {
	o := core.Outcome{NonTrivial: true, Sig: s.sig, States: uint64(len(s.states)), Trans: s.trans}
	if s.aborted {
		o.Partial = true
	}
	if len(s.states) == 0 && len(s.order) == 0 {
		o = core.Outcome{Skipped: true}
	}
	for _, k := range s.order {
		o.Viols = append(o.Viols, &core.Violation{Key: k, Detail: s.viols[k]})
	}
	if s.multi {
		// Harness limitation, not a verdict about golua: two distinct
		// unreachable objects of one key both carried a Go finaliser, and the
		// model fires only one of them.  (Only seen after a close-time
		// finaliser resurrects and re-marks a value, i.e. in the histories of
		// the recorded double-release finding.)
		fmt.Fprintln(os.Stderr, "note: A pool="+s.poolKind+": two collectable objects for one key in some state (only one was fired)")
	}
	return o
}

// start states (DESIGN §1.3: most defects do not manifest from empty)
var startNames = []string{"empty", "v1-finalised-once-resurrected", "v1R-v2F-marked"}

func startHist(i int) []uint8 {
	switch i {
	case 1:
		// mark v1 FR; drop; gcfire; pendingF; resurrect v1
		return []uint8{evMark + 2, evDrop, evFire, evXPF, evRes}
	case 2:
		// mark v1 R; mark v2 F
		return []uint8{evMark + 1, evMark + 4 + 0}
	}
	return nil
}

func poolFamily(poolKind string, depth, budget int) *core.Family {
	size := uint64(len(startNames)) * nEvents * nEvents
	get := func(i uint64) (int, []uint8) {
		// a capped run visits shards spread over the whole index space
		// (fixed bijection, no randomness)
		i = scramble(i, size)
		st := int(i % uint64(len(startNames)))
		i /= uint64(len(startNames))
		e2 := uint8(i % nEvents)
		e1 := uint8(i / nEvents)
		return st, []uint8{e1, e2}
	}
	return &core.Family{
		Name: fmt.Sprintf("A-%s-depth%d", poolKind, depth), Size: size, BudgetSeconds: budget,
		HangSeconds: budget + 120, // one shard may run until the family budget expires (it polls core.Expired)
		Run: func(i uint64) core.Outcome {
			if core.Expired() {
				return core.Outcome{Partial: true}
			}
			st, ops := get(i)
			s := &searcher{poolKind: poolKind, states: map[[16]byte]struct{}{}, viols: map[string]string{}}
			s.run(append(startHist(st), ops...), depth-2)
			curWorld = nil
			return s.outcome()
		},
		Show: func(i uint64) string {
			st, ops := get(i)
			return fmt.Sprintf("pool=%s start=%s [%s]; then %s; then every history of <= %d more events",
				poolKind, startNames[st], histStr(startHist(st)), histStr(ops), depth-2)
		},
	}
}

// scramble is a fixed bijection of [0,size) (multiplication by a constant
// coprime to size).
func scramble(i, size uint64) uint64 {
	m := uint64(2654435761)
	for gcd(m, size) != 1 {
		m += 2
	}
	return (i % size) * (m % size) % size
}

func gcd(a, b uint64) uint64 {
	for b != 0 {
		a, b = b, a%b
	}
	return a
}

func partAFamilies(tier string) []*core.Family {
	if tier == "thorough" {
		return []*core.Family{
			poolFamily("clone", 7, 150),
			poolFamily("unsafe", 7, 150),
			poolFamily("clone", 8, 90),
			poolFamily("unsafe", 8, 90),
		}
	}
	return []*core.Family{
		poolFamily("clone", 6, 45),
		poolFamily("unsafe", 6, 45),
	}
}
