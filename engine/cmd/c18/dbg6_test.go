package main

import (
	"fmt"
	"testing"
)

func TestCounts(t *testing.T) {
	small := []uint8{kT, kUR, kUFR, kTres}
	all := permissive.kinds
	ctxs := permissive.ctxKinds
	leaves := permissive.leaves
	for _, c := range []struct {
		n string
		c bcfg
	}{
		{"1val all len5 d2", bcfg{kinds: all, ctxKinds: ctxs, leaves: leaves, nvals: 1, maxDepth: 2, maxCtx: 2, length: 5}},
		{"1val all len6 d2", bcfg{kinds: all, ctxKinds: ctxs, leaves: leaves, nvals: 1, maxDepth: 2, maxCtx: 2, length: 6}},
		{"2val small len5 d1 cpu,soft", bcfg{kinds: small, ctxKinds: []uint8{cCPU, cSoft}, leaves: []uint8{lRet, lErr, lKill}, nvals: 2, maxDepth: 1, maxCtx: 2, length: 5}},
		{"2val small len5 d2 all", bcfg{kinds: small, ctxKinds: ctxs, leaves: leaves, nvals: 2, maxDepth: 2, maxCtx: 2, length: 5}},
		{"2val T,UFR len6 d1", bcfg{kinds: []uint8{kT, kUFR}, ctxKinds: []uint8{cCPU}, leaves: []uint8{lRet, lKill}, nvals: 2, maxDepth: 1, maxCtx: 1, length: 6}},
	} {
		_, offs := generate(&c.c)
		fmt.Println(c.n, len(offs)-1)
	}
}
