#!/bin/bash
set -u
HERE="$(cd "$(dirname "$0")" && pwd)"
ROOT="$(cd "$HERE/../../.." && pwd)"
export VERIF_ROOT="$ROOT"
"$HERE/build.sh" || exit 2
args=()
while [ $# -gt 0 ]; do
  case "$1" in
    --tier) args+=(-tier "$2"); shift 2;;
    --replay) args+=(-replay "$2"); shift 2;;
    *) args+=("$1"); shift;;
  esac
done
BIN="$ROOT/.bin/c18"; [ -n "${VERIF_REPO:-}" ] && BIN="$ROOT/.bin/alt/c18"
exec "$BIN" "${args[@]}"
