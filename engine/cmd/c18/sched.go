//go:build vsched

package main

// Part A-sched (E3): the Go finaliser of a dropped value does not run inline
// but on its own goroutine, as in a real process where Go's finaliser
// goroutine calls ClonePool.goFinalizer while the runtime's thread calls
// Mark / Extract*.  The pool mutex is routed through the vsched scheduler
// (overlay generated with `mkoverlay -pools`), and for every event history
// all schedules with at most `bound` preemptions are explored.  The oracle is
// the same obligations ledger as in part A, evaluated on whatever interleaving
// happened, plus: no Go panic, no deadlock, every spawned finaliser returns.

import (
	"fmt"
	"strings"

	rt "github.com/arnodel/golua/runtime"
	"github.com/arnodel/golua/vsched"

	"verif/engine/core"
	"verif/engine/explore"
)

const schedVals = 2 // values used by the schedule histories

func schedAlphabet() []uint8 {
	var al []uint8
	for k := 0; k < schedVals; k++ {
		for f := 0; f < 4; f++ {
			al = append(al, uint8(4*k+f))
		}
	}
	for k := 0; k < schedVals; k++ {
		al = append(al, uint8(evDrop+k), uint8(evFire+k), uint8(evRes+k))
	}
	al = append(al, evXPF, evXPR)
	return al
}

type schedRun struct {
	bad     []string
	results []string
	skipped int
	fired   int
}

// runSched applies h to a fresh pool; fire events spawn a goroutine.  The
// history is always completed by the two close steps.
func runSched(poolKind string, h []uint8, tape vsched.Tape) (r schedRun, rep vsched.Report) {
	full := append(append([]uint8{}, h...), evXAF, evXAR)
	rep = vsched.Run(tape, 20000, func() {
		w := newWorld(poolKind)
		for _, e8 := range full {
			e := int(e8)
			if !w.enabled(e) {
				r.skipped++
				r.results = append(r.results, "-")
				continue
			}
			if e >= evFire && e < evRes {
				o := w.collectable(e - evFire)
				fin := w.fins[o]
				delete(w.fins, o) // Go clears the finaliser when it queues it
				r.fired++
				r.results = append(r.results, "spawn")
				vsched.Go(func() { fin.(func(rt.VerifGCValue))(o) })
				continue
			}
			bad, res := w.apply(e)
			r.results = append(r.results, res)
			for _, b := range bad {
				r.bad = append(r.bad, fmt.Sprintf("%s@%d", b, len(r.results)))
			}
		}
	})
	return
}

func schedFamily(poolKind string, depth, bound, budget int) *core.Family {
	al := schedAlphabet()
	n := uint64(len(al))
	const prefix = 2
	size := n * n
	decode := func(i uint64) []uint8 { return []uint8{al[i/n], al[i%n]} }
	return &core.Family{
		Name: fmt.Sprintf("A-sched-%s-depth%d-bound%d", poolKind, depth, bound), Size: size, HangSeconds: budget + 900, BudgetSeconds: budget,
		Show: func(i uint64) string {
			return "pool event histories starting with [" + histStr(decode(i)) + "], Go finalisers on their own goroutines, all schedules within the preemption bound"
		},
		Run: func(i uint64) core.Outcome {
			var o core.Outcome
			seen := map[string]bool{}
			check := func(h []uint8) {
				var st explore.Stats
				hs := histStr(h)
				explore.Run(bound, 20000, &st, func(t *explore.Tape) bool {
					r, rep := runSched(poolKind, h, t)
					add := func(clause, detail string) {
						key := fmt.Sprintf("A-sched pool=%s hist=[%s] clause=%s", poolKind, hs, clause)
						if !seen[key] {
							seen[key] = true
							o.Viols = append(o.Viols, &core.Violation{Key: key, Detail: fmt.Sprintf("schedule %v: %s\nresults: %v", t.Choices(), detail, r.results)})
						}
					}
					if t.Diverged != "" || rep.TapeError != "" {
						add("replay-divergence", t.Diverged+rep.TapeError)
						return false
					}
					for _, p := range rep.Panics {
						add("go-panic", p)
					}
					if rep.Deadlock != "" {
						add("deadlock", rep.Deadlock)
					}
					if rep.ParkedEnd > 0 {
						add("finaliser-goroutine-stuck", strings.Join(rep.ParkedWhat, ","))
					}
					for _, b := range r.bad {
						c := b[:strings.IndexByte(b, '@')]
						add(c, "ledger clause "+b)
					}
					return true
				})
				o.States++
				o.Trans += st.Executions
				if st.Capped {
					o.Partial = true
				}
			}
			var dfs func(h []uint8)
			dfs = func(h []uint8) {
				if core.Expired() {
					o.Partial = true
					return
				}
				// sequential legality (fires inline) decides the history space
				r := replay(poolKind, h)
				if !r.ok || r.early || len(r.bad) > 0 {
					return // not a legal history, or one part A already reports
				}
				hasFire := false
				for _, e := range h {
					if int(e) >= evFire && int(e) < evRes {
						hasFire = true
					}
				}
				if hasFire {
					check(h)
				}
				if len(h) >= depth {
					return
				}
				for _, a := range al {
					dfs(append(append([]uint8{}, h...), a))
				}
			}
			start := decode(i)
			if r := replay(poolKind, start[:1]); !r.ok {
				o.Skipped = true
				return o
			}
			dfs(start)
			o.NonTrivial = o.States > 0
			if o.States == 0 {
				o.Skipped = true
			}
			o.Sig = core.Hash64(fmt.Sprint(i, o.States, o.Trans))
			return o
		},
	}
}

func schedFamilies(tier string) []*core.Family {
	if tier == "thorough" {
		return []*core.Family{schedFamily("clone", 8, 3, 400), schedFamily("unsafe", 8, 3, 400)}
	}
	return []*core.Family{schedFamily("clone", 6, 2, 90), schedFamily("unsafe", 6, 2, 90)}
}
