package main

import (
	"fmt"
	"os"
	"path/filepath"
	"strings"

	rt "github.com/arnodel/golua/runtime"

	"verif/engine/core"
)

// ---------------------------------------------------------------- minimisation and keys

func clauseBase(c string) string {
	if i := strings.IndexByte(c, '('); i >= 0 {
		return c[:i]
	}
	return c
}

func findClause(cs []string, base string) string {
	for _, c := range cs {
		if clauseBase(c) == base {
			return c
		}
	}
	return ""
}

// removeValue deletes every operation on value v and renames the later values.
func removeValue(ops []bop, v uint8) []bop {
	var out []bop
	for _, o := range ops {
		if o.k <= oFire {
			if o.v == v {
				continue
			}
			if o.v > v {
				o.v--
			}
		}
		out = append(out, o)
	}
	return out
}

// removeCtx deletes the k-th enter and its matching leave (the body stays).
func removeCtx(ops []bop, enter int) []bop {
	end := matchLeave(ops, enter)
	var out []bop
	for i, o := range ops {
		if i == enter || i == end {
			continue
		}
		out = append(out, o)
	}
	return out
}

// clauseMemo: clauses of sequences already run in this process (minimisation
// keeps re-visiting the same short sequences).
var clauseMemo = map[string][]string{}

func clausesOf(ops []bop, via string) []string {
	k := via + "|" + seqString(ops)
	if c, ok := clauseMemo[k]; ok {
		return c
	}
	c := runCase(ops, via).clauses
	if len(clauseMemo) < 2000000 {
		clauseMemo[k] = c
	}
	return c
}

func minimiseB(ops []bop, via, base string) ([]bop, string) {
	still := func(c []bop) string {
		if len(c) == 0 || !wellFormed(c, &permissive) {
			return ""
		}
		return findClause(clausesOf(c, via), base)
	}
	cur := append([]bop(nil), ops...)
	clause := still(cur)
	for changed := true; changed; {
		changed = false
		// whole values, whole contexts, then single operations (last first)
		for v := uint8(0); v < maxVals; v++ {
			c := removeValue(cur, v)
			if len(c) < len(cur) {
				if cl := still(c); cl != "" {
					cur, clause, changed = c, cl, true
					v--
				}
			}
		}
		for i := 0; i < len(cur); i++ {
			if cur[i].k == oEnter {
				if cl := still(removeCtx(cur, i)); cl != "" {
					cur, clause, changed = removeCtx(cur, i), cl, true
					i--
				}
			}
		}
	windows:
		for l := len(cur) - 1; l >= 1; l-- {
			for i := len(cur) - l; i >= 0; i-- {
				c := append(append([]bop(nil), cur[:i]...), cur[i+l:]...)
				if cl := still(c); cl != "" {
					cur, clause, changed = c, cl, true
					break windows
				}
			}
		}
		if changed {
			continue
		}
		// canonical order: adjacent operations are swapped towards the
		// smaller encoding while the violation stays (interleavings that
		// do not matter collapse to one sequence)
		for swapped := true; swapped; {
			swapped = false
			for i := 0; i+1 < len(cur); i++ {
				a, b := cur[i], cur[i+1]
				if !(b.k < a.k || (b.k == a.k && (b.v < a.v || (b.v == a.v && b.a < a.a)))) {
					continue
				}
				c := append([]bop(nil), cur...)
				c[i], c[i+1] = b, a
				if cl := still(c); cl != "" {
					cur, clause, changed, swapped = c, cl, true, true
				}
			}
		}
		// simplify arguments: kinds towards T, contexts towards cpu, leave towards ret
		for i := range cur {
			var alts []uint8
			switch cur[i].k {
			case oNew:
				alts = permissive.kinds
			case oEnter:
				alts = permissive.ctxKinds
			case oLeave:
				alts = permissive.leaves
			default:
				continue
			}
			for _, a := range alts {
				if a == cur[i].a {
					break // only towards simpler
				}
				c := append([]bop(nil), cur...)
				c[i].a = a
				if cl := still(c); cl != "" {
					cur, clause, changed = c, cl, true
					break
				}
			}
		}
	}
	return cur, clause
}

// embeds: is small a subsequence of big under an injective renaming of values?
func embeds(small, big []bop) bool {
	perms := [][]uint8{{0, 1, 2}, {0, 2, 1}, {1, 0, 2}, {1, 2, 0}, {2, 0, 1}, {2, 1, 0}}
	for _, p := range perms {
		j := 0
		for _, o := range big {
			if j == len(small) {
				break
			}
			s := small[j]
			if s.k <= oFire {
				s.v = p[s.v]
			}
			if s == o {
				j++
			}
		}
		if j == len(small) {
			return true
		}
	}
	return false
}

type minimal struct {
	ops    []bop
	clause string
}

var violCache = map[string]*core.Violation{}
var minCache = map[string][]minimal{} // via+base clause -> minimal sequences found in this process

func logString(log []rawEntry, ops []bop) string {
	var sb strings.Builder
	for _, e := range log {
		switch e.kind {
		case "op":
			if e.id >= 0 && e.id < len(ops) {
				fmt.Fprintf(&sb, "  op %d: %s   [depth %d %s]\n", e.id, ops[e.id], e.depth, e.status)
			}
		case "gc", "gcend", "rel", "res", "mark":
			fmt.Fprintf(&sb, "    %s %c   [depth %d %s cpu %d]\n", e.kind, 'a'+e.id-1, e.depth, e.status, e.cpu)
		case "enter", "bodyend":
			fmt.Fprintf(&sb, "  %s ctx%d   [depth %d %s cpu %d]\n", e.kind, e.id, e.depth, e.status, e.cpu)
		case "after":
			fmt.Fprintf(&sb, "  after ctx%d: status %s used.cpu %d\n", e.id, e.status, e.cpu)
		default:
			fmt.Fprintf(&sb, "  %s\n", e.kind)
		}
	}
	return sb.String()
}

func judge(ops []bop, via string) (viols []*core.Violation, sig string, fires int) {
	res := runCase(ops, via)
	var sb strings.Builder
	for _, e := range res.log {
		if e.kind == "gc" || e.kind == "rel" || e.kind == "after" {
			fmt.Fprintf(&sb, "%s%d@%d%s ", e.kind, e.id, e.depth, e.status)
		}
	}
	sig = sb.String()
	fires = res.fires
	seen := map[string]bool{}
	for _, c := range res.clauses {
		base := clauseBase(c)
		if seen[base] {
			continue
		}
		seen[base] = true
		ck := via + " " + base
		_ = ck
		clauseMemo[via+"|"+seqString(ops)] = res.clauses
		mops, mclause := minimiseB(ops, via, base)
		if mclause == "" { // not reproducible on its own: keep the case as it is
			mops, mclause = ops, c
		}
		key := fmt.Sprintf("B via=%s seq=[%s] clause=%s", via, seqString(mops), mclause)
		if v, ok := violCache[key]; ok {
			viols = append(viols, v)
			continue
		}
		mres := runCase(mops, via)
		detail := fmt.Sprintf("rendering: %s (%s)\nminimal sequence: %s; then Runtime.Close\nviolated clauses there: %v\nlog:\n%smonitor: %s\nfound in: %s (clauses %v)",
			via, map[string]string{"lua": "one Lua chunk, contexts through runtime.callcontext", "go": "operation by operation through the Go API, contexts through Thread.CallContext", "gostep": "as go, plus one VM step (a no-op Lua call) before every context end and before Runtime.Close"}[via],
			seqString(mops), mres.clauses, logString(mres.log, mops), mres.monitor, seqString(ops), res.clauses)
		if via == "lua" {
			detail += "\nLua program (prelude defines newT/newU/remark/...; fire(i,id) is the seam event):\n" + renderLua(mops)
		}
		v := &core.Violation{Key: key, Detail: detail}
		violCache[key] = v
		viols = append(viols, v)
	}
	return
}

// ---------------------------------------------------------------- families

// familyWanted: worker processes are started with -family <name>; they only
// need that family materialised.
func familyWanted(name string) bool {
	for i, a := range os.Args {
		if a == "-family" || a == "--family" {
			if i+1 < len(os.Args) {
				return os.Args[i+1] == name
			}
		}
		if (a == "-case" || a == "--case") && i+1 < len(os.Args) {
			return strings.HasPrefix(os.Args[i+1], name+":")
		}
		if strings.HasPrefix(a, "-family=") || strings.HasPrefix(a, "--family=") {
			return a[strings.IndexByte(a, '=')+1:] == name
		}
	}
	return true
}

func seqFamily(name string, c bcfg, budget int, vias ...string) *core.Family {
	var flat []bop
	var offs []uint32
	if !familyWanted(name) {
		// a worker of another family: do not pay for the enumeration
		return &core.Family{Name: name, Size: 0, Run: func(uint64) core.Outcome { return core.Outcome{Skipped: true} }}
	}
	flat, offs = generate(&c)
	n := uint64(len(offs) - 1)
	get := func(i uint64) []bop {
		i = scramble(i, n) // a capped run samples every length and every region of the enumeration
		return flat[offs[i]:offs[i+1]]
	}
	return &core.Family{
		Name: name, Size: uint64(len(offs) - 1), BudgetSeconds: budget,
		Run: func(i uint64) core.Outcome { return runSeqCase(get(i), vias) },
		Show: func(i uint64) string { return seqString(get(i)) + "; then Runtime.Close (rendered as Lua and through the Go API)" },
	}
}

// batchFamily: two values marked in a cpu-limited context, both dropped and
// collected (every interleaving / subset), the pending batch extracted in the
// context itself or in a child context; the finaliser of one of them may kill
// the context it runs in.  (Sequences longer than the generic families reach.)
func batchFamily() *core.Family {
	name := "B-batch"
	if !familyWanted(name) {
		return &core.Family{Name: name, Size: 0, Run: func(uint64) core.Outcome { return core.Outcome{Skipped: true} }}
	}
	kinds := []uint8{kT, kUFR, kTkill, kTspin, kTres}
	var cases [][]bop
	// the four events on a, b in every order / subset that keeps drop before gcfire
	evs := []bop{{oDrop, 0, 0}, {oFire, 0, 0}, {oDrop, 1, 0}, {oFire, 1, 0}}
	var orders [][]bop
	var rec func(cur []bop, used [4]bool)
	rec = func(cur []bop, used [4]bool) {
		orders = append(orders, append([]bop(nil), cur...))
		for i, e := range evs {
			if used[i] || (e.k == oFire && !used[i-1]) {
				continue
			}
			u := used
			u[i] = true
			rec(append(cur, e), u)
		}
	}
	rec(nil, [4]bool{})
	for _, ka := range kinds {
		for _, kb := range kinds {
			for child := 0; child < 3; child++ { // none, soft, mem
				for _, ord := range orders {
					if len(ord) < 2 {
						continue
					}
					for split := 0; split <= len(ord); split++ { // how many of the events happen before the child is entered
						if child == 0 && split != 0 {
							continue
						}
						ops := []bop{{oEnter, 0, cCPU}, {oNew, 0, ka}, {oNew, 1, kb}}
						ops = append(ops, ord[:split]...)
						if child > 0 {
							ops = append(ops, bop{oEnter, 0, []uint8{cSoft, cSoft, cMem}[child]})
						}
						ops = append(ops, ord[split:]...)
						for step := 0; step < 2; step++ {
							o2 := append([]bop(nil), ops...)
							if step == 1 {
								o2 = append(o2, bop{oStep, 0, 0})
							}
							if child > 0 {
								o2 = append(o2, bop{oLeave, 0, lRet})
							}
							o2 = append(o2, bop{oLeave, 0, lRet})
							if wellFormed(o2, &permissive) {
								cases = append(cases, o2)
							}
						}
					}
				}
			}
		}
	}
	return &core.Family{
		Name: name, Size: uint64(len(cases)),
		Run:  func(i uint64) core.Outcome { return runSeqCase(cases[i], []string{"lua", "gostep"}) },
		Show: func(i uint64) string { return seqString(cases[i]) + "; then Runtime.Close" },
	}
}

// runSeqCase: "go" (no VM step between the last operation and a context end /
// Runtime.Close) is the rendering in which the lost-finaliser history of the
// pool shows in nearly every case that collects something; the other families
// use "gostep" so that it does not mask anything else.
func runSeqCase(ops []bop, vias []string) core.Outcome {
	if len(vias) == 0 {
		vias = []string{"lua", "gostep"}
	}
	var o core.Outcome
	sigs := ""
	for _, via := range vias {
		vs, sig, _ := judge(ops, via)
		o.Viols = append(o.Viols, vs...)
		sigs += via + ":" + sig + "|"
	}
	o.Sig = core.Hash64(sigs)
	o.NonTrivial = true
	return o
}

func partBFamilies(tier string) []*core.Family {
	small := []uint8{kT, kUR, kUFR, kTres}
	all := permissive.kinds
	ctxs := permissive.ctxKinds
	leaves := permissive.leaves
	if tier == "thorough" {
		return []*core.Family{
			seqFamily("B-seq-1val-allkinds-len6", bcfg{kinds: all, ctxKinds: ctxs, leaves: leaves, nvals: 1, maxDepth: 2, maxCtx: 2, length: 6}, 120, "lua", "go", "gostep"),
			seqFamily("B-seq-2val-len6", bcfg{kinds: small, ctxKinds: ctxs, leaves: leaves, nvals: 2, maxDepth: 2, maxCtx: 2, length: 6}, 180),
			seqFamily("B-seq-3val-T-UFR-len6", bcfg{kinds: []uint8{kT, kUFR}, ctxKinds: []uint8{cCPU, cSoft}, leaves: []uint8{lRet, lKill}, nvals: 3, maxDepth: 1, maxCtx: 1, length: 6}, 90),
			batchFamily(),
			ioFamily(),
		}
	}
	return []*core.Family{
		seqFamily("B-seq-1val-allkinds-len5", bcfg{kinds: all, ctxKinds: ctxs, leaves: leaves, nvals: 1, maxDepth: 2, maxCtx: 2, length: 5}, 30, "lua", "go", "gostep"),
		seqFamily("B-seq-2val-len5", bcfg{kinds: small, ctxKinds: ctxs, leaves: leaves, nvals: 2, maxDepth: 2, maxCtx: 2, length: 5}, 40),
		seqFamily("B-seq-2val-T-UFR-len6", bcfg{kinds: []uint8{kT, kUFR}, ctxKinds: []uint8{cCPU}, leaves: []uint8{lRet, lKill}, nvals: 2, maxDepth: 1, maxCtx: 1, length: 6}, 25),
		batchFamily(),
		ioFamily(),
	}
}

// ---------------------------------------------------------------- io: the standard library's own releaser

func sentinelDir() string { return fmt.Sprintf("/tmp/c18-%d", os.Getpid()) }

func countFDs() int {
	es, err := os.ReadDir("/proc/self/fd")
	if err != nil {
		return -1
	}
	return len(es)
}

var ioOpen = []string{"open-w", "open-r", "tmpfile"}
var ioPlace = []string{"root", "ctx", "ctx-in-ctx"}
var ioFate = []string{"keep", "drop", "drop-gcfire", "close-drop", "close-drop-gcfire", "write-drop", "write-keep"}
var ioEnd = []string{"ret", "err", "kill"}

func ioFamily() *core.Family {
	size := uint64(len(ioOpen) * len(ioPlace) * len(ioFate) * len(ioEnd))
	get := func(i uint64) (op, place, fate, end int) {
		end = int(i % uint64(len(ioEnd)))
		i /= uint64(len(ioEnd))
		fate = int(i % uint64(len(ioFate)))
		i /= uint64(len(ioFate))
		place = int(i % uint64(len(ioPlace)))
		i /= uint64(len(ioPlace))
		op = int(i)
		return
	}
	show := func(i uint64) string {
		a, b, c, d := get(i)
		return fmt.Sprintf("file=%s place=%s fate=%s end=%s", ioOpen[a], ioPlace[b], ioFate[c], ioEnd[d])
	}
	return &core.Family{
		Name: "B-io", Size: size, Show: show,
		Run: func(i uint64) core.Outcome {
			a, b, c, d := get(i)
			if b == 0 && d != 0 {
				return core.Outcome{Skipped: true} // no context to end
			}
			if a == 1 && (c == 5 || c == 6) {
				return core.Outcome{Skipped: true} // nothing to write to a read-only file
			}
			bad, sig, canon := runIO(a, b, c, d)
			o := core.Outcome{NonTrivial: true, Sig: core.Hash64(canon)}
			for _, cl := range bad {
				o.Viols = append(o.Viols, &core.Violation{
					Key:    fmt.Sprintf("B-io %s clause=%s", show(i), cl),
					Detail: "observations: " + sig,
				})
			}
			return o
		},
	}
}

// runIO: a file is opened (in a sentinel directory) at the given place and
// never closed by the program unless the fate says so; descriptors are counted
// after the context ended and after Runtime.Close.
func runIO(open, place, fate, end int) (bad []string, sig string, canon string) {
	dir := sentinelDir()
	os.RemoveAll(dir)
	if err := os.MkdirAll(dir, 0o755); err != nil {
		return []string{"internal-mkdir"}, err.Error(), ""
	}
	defer os.RemoveAll(dir)
	oldTmp, hadTmp := os.LookupEnv("TMPDIR")
	os.Setenv("TMPDIR", dir)
	defer func() {
		if hadTmp {
			os.Setenv("TMPDIR", oldTmp)
		} else {
			os.Unsetenv("TMPDIR")
		}
	}()
	path := filepath.Join(dir, "data.txt")
	os.WriteFile(path, []byte("seed\n"), 0o644)
	// warm up whatever the Go runtime opens lazily for file I/O
	if f, err := os.Open(path); err == nil {
		f.Close()
	}

	m := newBMachineLibs(true)
	defer func() { curMachine = nil }()
	var files []*seamReg // userdata holding files, in creation order
	env := m.r.GlobalEnv()
	var fdAfterCtx, fdHeld int = -1, -1
	g := m.r.SetEnvGoFunc(env, "fdcount", func(t *rt.Thread, c *rt.GoCont) (rt.Cont, error) {
		k, _ := c.StringArg(0)
		n := countFDs()
		switch string(k) {
		case "afterctx":
			fdAfterCtx = n
		case "held":
			fdHeld = n
		}
		return c.Next(), nil
	}, 1, false)
	g2 := m.r.SetEnvGoFunc(env, "firefile", func(t *rt.Thread, c *rt.GoCont) (rt.Cont, error) {
		// the seam event for the (only) file userdata
		files = files[:0]
		for _, reg := range m.regs {
			if u, ok := reg.obj.(*rt.UserData); ok && reg.fin != nil {
				if _, isOurs := u.Value().(*urel); !isOurs && fmt.Sprintf("%T", u.Value()) == "*iolib.File" {
					files = append(files, reg)
				}
			}
		}
		// the last registered file is ours (stdin/stdout/stderr come first)
		if len(files) > 3 {
			reg := files[len(files)-1]
			if !m.retained()[reg.obj] {
				fin := reg.fin
				reg.fin = nil
				fin.(func(rt.VerifGCValue))(reg.obj.(*rt.UserData))
				m.fires++
			}
		}
		return c.Next(), nil
	}, 0, false)
	rt.SolemnlyDeclareCompliance(allFlags, g, g2)

	openExpr := map[int]string{
		0: fmt.Sprintf("io.open(%q, 'w')", filepath.Join(dir, "out.txt")),
		1: fmt.Sprintf("io.open(%q, 'r')", path),
		2: "io.tmpfile()",
	}[open]
	var body strings.Builder
	fmt.Fprintf(&body, "F = assert(%s)\n", openExpr)
	if fate == 5 || fate == 6 {
		body.WriteString("F:write('hello')\n")
	}
	if fate == 3 || fate == 4 {
		body.WriteString("F:close()\n")
	}
	if fate == 0 || fate == 6 {
		body.WriteString("fdcount('held')\n")
	} else {
		body.WriteString("F = nil\n")
	}
	if fate == 2 || fate == 4 {
		body.WriteString("firefile()\nlocal x = 1\n")
	}
	endStmt := map[int]string{0: "", 1: "error('e')\n", 2: "runtime.killcontext()\n"}[end]
	var src string
	switch place {
	case 0:
		src = body.String()
	case 1:
		src = "local c = runtime.callcontext({kill={cpu=100000}}, function()\n" + body.String() + endStmt + "end)\nfdcount('afterctx')\n"
	case 2:
		src = "local c = runtime.callcontext({kill={memory=10000000}}, function()\nlocal d = runtime.callcontext({kill={cpu=100000}}, function()\n" + body.String() + endStmt + "end)\nfdcount('afterctx')\nend)\n"
	}
	base := countFDs()
	status := ""
	func() {
		defer func() {
			if p := recover(); p != nil {
				status = fmt.Sprint("go-panic: ", p)
			}
		}()
		clos, err := m.r.CompileAndLoadLuaChunk("io", []byte(src), rt.TableValue(env))
		if err != nil {
			status = "compile: " + err.Error()
			return
		}
		if err := rt.Call(m.r.MainThread(), rt.FunctionValue(clos), nil, rt.NewTerminationWith(nil, 0, false)); err != nil {
			status = "error: " + err.Error()
		}
	}()
	fdBeforeClose := countFDs()
	m.r.Close(nil)
	fdAfterClose := countFDs()
	if m.cleanup != nil {
		m.cleanup()
	}
	// what is left in the sentinel directory
	var left []string
	if es, err := os.ReadDir(dir); err == nil {
		for _, e := range es {
			left = append(left, e.Name())
		}
	}
	content := ""
	if open == 0 {
		b, _ := os.ReadFile(filepath.Join(dir, "out.txt"))
		content = string(b)
	}
	sig = fmt.Sprintf("status=%q base=%d held=%d afterctx=%d beforeclose=%d afterclose=%d left=%v content=%q src=%q",
		status, base, fdHeld, fdAfterCtx, fdBeforeClose, fdAfterClose, left, content, src)
	canon = fmt.Sprintf("status=%q held=%d afterctx=%d beforeclose=%d afterclose=%d left=%v content=%q",
		status, fdHeld-base, fdAfterCtx-base, fdBeforeClose-base, fdAfterClose-base, left, content)
	if status != "" {
		bad = append(bad, "internal-unexpected-error")
	}
	closedByProgram := fate == 3 || fate == 4
	if fdHeld >= 0 && fdHeld != base+1 {
		bad = append(bad, "descriptor-not-open-while-held")
	}
	if place > 0 && fdAfterCtx != base {
		// after context end the descriptor is closed
		bad = append(bad, "descriptor-open-after-context-end")
	}
	if place == 0 && (fate == 0 || fate == 6) && fdBeforeClose != base+1 {
		bad = append(bad, "descriptor-closed-while-held")
	}
	if fdAfterClose != base {
		bad = append(bad, "descriptor-open-after-runtime-close")
	}
	_ = closedByProgram
	for _, n := range left {
		if strings.HasPrefix(n, "golua") {
			bad = append(bad, "temp-file-not-removed")
		}
	}
	if (fate == 5 || fate == 6) && open == 0 && content != "hello" {
		// the release flushes what the program wrote
		bad = append(bad, "written-data-lost")
	}
	return bad, sig, canon
}
