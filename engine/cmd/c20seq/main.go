// c20seq runs only the sequential-interleaving families of C20 (package
// verif/engine/c20seq), under property ID C20, for development:
//
//	./check c20seq --tier quick
//
// cmd/c20 runs the same families together with the concurrent-schedule ones.
package main

import (
	"verif/engine/c20seq"
	"verif/engine/core"
)

func main() {
	core.Main(&core.Check{
		ID:          "C20",
		Level:       "model_checking",
		Rule:        c20seq.Rule,
		Assumptions: c20seq.Assumptions,
		Families:    c20seq.Families,
		Extra:       c20seq.Extra,
	})
}
