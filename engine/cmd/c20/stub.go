//go:build !vsched

// The C20 check only builds with the generated overlay (see run.sh).
package main

func main() { panic("build cmd/c20 through its run.sh (needs the vsched overlay)") }
