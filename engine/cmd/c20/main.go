//go:build vsched

// C20 (concurrent part): N goroutines each create a Runtime, load the standard
// library, run a script and close the runtime, under the vsched cooperative
// scheduler.  The overlay (generated from the current /repo sources) marks
// every use of a package-level variable of runtime/ and lib/*, the methods of
// *GoFunction, and puts a scheduling point at every Go-function call
// boundary.  All schedules within the preemption bound are explored; the
// vector-clock monitor reports conflicting accesses to shared state that are
// not ordered by happens-before; every runtime must observe exactly what it
// observes when it runs alone.
package main

import (
	"encoding/json"
	"fmt"
	"os"
	"runtime"
	"strings"

	"github.com/arnodel/golua/lib"
	rt "github.com/arnodel/golua/runtime"
	"github.com/arnodel/golua/vsched"

	"verif/engine/core"
	"verif/engine/explore"
	"verif/engine/host"
)

type script struct {
	Name string
	Src  string
}

var catalogue = []script{
	{"arith", `local s = 0 for i = 1, 5 do s = s + i * 2 end emit(s, ("x"):rep(3), #("abc"), 7 // 2, 2^10)`},
	{"random", `math.randomseed(7) emit(math.random(1000000)) emit(math.random(1000000), math.random(10))`},
	{"gc", `emit(collectgarbage("isrunning")) collectgarbage("stop") emit(collectgarbage("isrunning")) collectgarbage("restart") emit(collectgarbage("isrunning"))`},
	{"gcobs", `emit(collectgarbage("isrunning")) emit(type(collectgarbage("count"))) emit(collectgarbage("isrunning"))`},
	{"strmeta", `local mt = getmetatable("") local old = mt.__index mt.__index = function(s, k) return function() return "hacked" end end emit(("a"):upper()) mt.__index = old emit(("a"):upper())`},
	{"strobs", `emit(("a"):upper(), ("abc"):sub(2), string.format("%5.1f", 2.5)) emit(getmetatable("").__index == string)`},
	{"globals", `string.rep = nil table.insert = 1 emit(type(string.rep), type(table.insert)) print = nil emit(type(print))`},
	{"globobs", `emit(type(string.rep), type(table.insert), type(print), type(next), type(ipairs({})))  for i, v in ipairs({4, 5}) do emit(i, v) end for k, v in pairs({a = 1}) do emit(k, v) end`},
	{"coro", `local co = coroutine.wrap(function(a) local b = coroutine.yield(a + 1) emit("in", b) return "done" end) emit(co(1)) emit(co(5))`},
	{"quota", `local c = runtime.callcontext({kill = {cpu = 300}}, function() while true do end end) emit(c.status) local c2 = runtime.callcontext({kill = {memory = 3000}}, function() local t = {} for i = 1, 1000 do t[i] = {} end end) emit(c2.status)`},
	{"ctxkill", `local c = runtime.callcontext({kill = {cpu = 100000}}, function() runtime.killcontext(runtime.context()) end) emit(c.status) emit(runtime.context().status)`},
	{"error", `emit(pcall(error, {1})) local ok, e = pcall(function() local x = nil; return x.y end) emit(ok) error("boom", 0)`},
	{"pack", `emit(string.pack("<i4", 100):byte(1, -1)) emit(string.unpack("<i4", string.pack("<i4", -2))) emit(utf8.char(228, 8364)) emit(string.format("%q", 1/3))`},
	{"sort", `local t = {5, 2, 8, 1} table.sort(t, function(a, b) return a > b end) emit(table.concat(t, ",")) emit(select("#", table.unpack(t)))`},
	{"load", `local f = load("return 1 + 1") emit(f()) emit(load(string.dump(function() return 42 end))()) emit(tostring(1e15), tostring(-0.0), math.type(3 // 1))`},
	{"errpos", `local ok, e = pcall(function() error("boom") end) emit(e) local ok2, e2 = pcall(function() local x = nil; return x.y end) emit(ok2, (e2:gsub(":.*", ""))) emit(debug.getinfo(1, "S").short_src)`},
	{"loadcost", `local src = "local a = 1 local function f(x) return x + a end return f(2)" local c = runtime.callcontext({kill = {cpu = 1000000}}, function() return load(src)() end) emit(c.status, c.used.cpu) emit(select(2, pcall(load("error('in loaded chunk')", "=loaded"))))`},
	{"require", `emit(pcall(require, "nosuchmodule_c20")) emit(package.searchpath("a.b", "./nosuchdir_c20/?.lua;./nosuchdir_c20/?/init.lua"))`},
	{"pkgconfig", `package.config = "/\n:\n#\n!\n-\n" emit(package.searchpath("a.b", "./nosuchdir_c20/#.lua:./nosuchdir_c20/#/init.lua")) emit((pcall(require, "nosuchmodule_c20")))`},
	{"pkgshort", `package.config = nil emit(package.searchpath("a.b", "./nosuchdir_c20/?.lua;./nosuchdir_c20/#.lua")) package.config = "/\n" emit(package.searchpath("a.b", "./nosuchdir_c20/?.lua;./nosuchdir_c20/#.lua"))`},
	{"iobuf", `emit(io.type(io.stdout), type(io.output()), io.type(42)) emit(os.time{year=2020, month=1, day=1, hour=12} > 0) emit(type(os.clock()))`},
}

type obs struct {
	trace  []string
	status string
}

func (o obs) String() string { return o.status + " [" + strings.Join(o.trace, " | ") + "]" }

// runOne is the whole lifecycle of one runtime.
func runOne(sc script, slot int) obs {
	var o obs
	r := rt.New(nil)
	runtime.SetFinalizer(r, nil)
	cleanup := lib.LoadAll(r)
	canon := host.NewCanon()
	env := r.GlobalEnv()
	emit := r.SetEnvGoFunc(env, "emit", func(t *rt.Thread, c *rt.GoCont) (rt.Cont, error) {
		o.trace = append(o.trace, strings.Join(canon.Values(c.Etc()), ","))
		return c.Next(), nil
	}, 0, true)
	rt.SolemnlyDeclareCompliance(rt.ComplyCpuSafe|rt.ComplyMemSafe|rt.ComplyIoSafe|rt.ComplyTimeSafe, emit)
	func() {
		defer func() {
			if p := recover(); p != nil {
				o.status = "gopanic " + fmt.Sprint(p)
			}
		}()
		// each runtime of a tuple compiles under its own chunk name (the name
		// is part of what a runtime observes: error positions, debug info)
		clos, err := r.CompileAndLoadLuaChunk(fmt.Sprintf("%s_r%d", sc.Name, slot), []byte(sc.Src), rt.TableValue(env))
		if err != nil {
			o.status = "compile " + err.Error()
			return
		}
		term := rt.NewTerminationWith(nil, 0, true)
		if err := rt.Call(r.MainThread(), rt.FunctionValue(clos), nil, term); err != nil {
			o.status = "err " + canon.Value(rt.ErrorValue(err))
		} else {
			o.status = "ok " + strings.Join(canon.Values(term.Etc()), ",")
		}
	}()
	r.Close(nil)
	if cleanup != nil {
		cleanup()
	}
	return o
}

var solo = map[string]string{}

func soloObs(sc script, slot int) string {
	key := fmt.Sprintf("%s/%d", sc.Name, slot)
	if s, ok := solo[key]; ok {
		return s
	}
	var o obs
	vsched.Run(zeroTape{}, 0, func() { o = runOne(sc, slot) })
	solo[key] = o.String()
	return solo[key]
}

type zeroTape struct{}

func (zeroTape) Choose(en []int, re bool, l string) int { return 0 }

func tupleName(t []script) string {
	n := make([]string, len(t))
	for i, s := range t {
		n[i] = s.Name
	}
	return strings.Join(n, "+")
}

func exploreTuple(t []script, bound int, maxExec uint64, o *core.Outcome) {
	name := tupleName(t)
	seen := map[string]bool{}
	addV := func(clause, detail string) {
		key := fmt.Sprintf("concurrent=[%s] clause=%s", name, clause)
		if seen[key] {
			return
		}
		seen[key] = true
		o.Viols = append(o.Viols, &core.Violation{Key: key, Detail: detail})
	}
	want := make([]string, len(t))
	for i, s := range t {
		want[i] = soloObs(s, i)
	}
	var st explore.Stats
	sigs := uint64(0)
	explore.Run(bound, maxExec, &st, func(tp *explore.Tape) bool {
		res := make([]obs, len(t))
		rep := vsched.Run(tp, 200000, func() {
			for i := range t {
				i := i
				vsched.Go(func() { res[i] = runOne(t[i], i) })
			}
		})
		sched := fmt.Sprint(tp.Choices())
		if tp.Diverged != "" || rep.TapeError != "" {
			addV("replay-divergence", fmt.Sprintf("schedule %s: %s %s", sched, tp.Diverged, rep.TapeError))
			return false
		}
		for _, p := range rep.Panics {
			addV("go-panic "+p[strings.Index(p, ": ")+2:], fmt.Sprintf("schedule %s: %s", sched, p))
		}
		if rep.Deadlock != "" {
			addV("deadlock", fmt.Sprintf("schedule %s: %s", sched, rep.Deadlock))
		}
		if rep.Horizon {
			addV("horizon", "execution did not finish within the point budget")
		}
		for _, rc := range rep.Races {
			addV("race "+raceLoc(rc), fmt.Sprintf("schedule %s: conflicting accesses by two runtimes' goroutines not ordered by happens-before: %s", sched, rc))
		}
		if len(rep.Panics) == 0 && rep.Deadlock == "" && !rep.Horizon {
			for i := range t {
				if got := res[i].String(); got != want[i] {
					addV(fmt.Sprintf("interference victim=%s", t[i].Name), fmt.Sprintf("schedule %s: runtime %d (%s) observed\n  %s\nalone it observes\n  %s", sched, i, t[i].Name, got, want[i]))
				}
			}
		}
		sigs ^= core.Hash64(fmt.Sprint(res))
		return true
	})
	o.States++
	o.Trans += st.Executions
	o.Sig ^= sigs
	if st.Capped {
		o.Partial = true
	}
}

// raceLoc keeps the location name and the two site names (no line numbers
// beyond what the site label has).
func raceLoc(rc string) string { return rc }

func families(tier string) []*core.Family {
	rt.VerifSetFinalizerSeam(func(obj interface{}, fin interface{}) {})
	bound, maxExec := 1, uint64(200000)
	budget := 240
	if tier == "thorough" {
		bound, maxExec, budget = 2, 60000, 1200
	}
	if tier != "thorough" {
		var quick []script
		for i, sc := range catalogue {
			if i < 11 || sc.Name == "errpos" || sc.Name == "loadcost" || sc.Name == "require" || sc.Name == "pkgconfig" || sc.Name == "pkgshort" {
				quick = append(quick, sc)
			}
		}
		catalogue = quick
	}
	n := uint64(len(catalogue))
	pairs := &core.Family{
		Name: fmt.Sprintf("concurrent-pairs-bound%d", bound), Size: n * n, HangSeconds: budget + 900, BudgetSeconds: budget,
		Show: func(i uint64) string {
			return "runtimes " + tupleName([]script{catalogue[i/n], catalogue[i%n]}) + " on two goroutines, all schedules within the bound"
		},
		Run: func(i uint64) core.Outcome {
			var o core.Outcome
			exploreTuple([]script{catalogue[i/n], catalogue[i%n]}, bound, maxExec, &o)
			o.NonTrivial = true
			return o
		},
	}
	fams := []*core.Family{pairs}
	// triples: every script with two copies of itself's neighbours (i, i+1, i+2)
	triples := &core.Family{
		Name: "concurrent-triples-bound0", Size: n, HangSeconds: budget + 900, BudgetSeconds: budget,
		Show: func(i uint64) string {
			return "runtimes " + tupleName([]script{catalogue[i], catalogue[(i+1)%n], catalogue[(i+2)%n]}) + " on three goroutines"
		},
		Run: func(i uint64) core.Outcome {
			var o core.Outcome
			b := 0
			if tier == "thorough" {
				b = 1
			}
			exploreTuple([]script{catalogue[i], catalogue[(i+1)%n], catalogue[(i+2)%n]}, b, maxExec, &o)
			o.NonTrivial = true
			return o
		},
	}
	fams = append(fams, triples)
	fams = append(fams, extraFamilies(tier)...)
	return fams
}

func main() {
	if d := os.Getenv("C20_FREERACE"); d != "" {
		reps := 2
		fmt.Sscan(d, &reps)
		freeRace(reps)
		return
	}
	runtime.GOMAXPROCS(1)
	core.Main(&core.Check{
		ID:    "C20",
		Level: "model_checking",
		Rule:  "states = tuples of runtimes explored; transitions = controlled executions (one per schedule); distinct = distinct per-tuple result sets",
		Assumptions: []string{
			"scheduling points at every Go-function call boundary (GoCont.RunInThread) and goroutine spawn/exit; sequentially consistent interleavings",
			"shared state is what the rewriter marks: every package-level variable of runtime/ and lib/* (except lib/golib) used inside a function body, and the fields of *GoFunction through its methods and GoCont.RunInThread; state reached only through the Go standard library (math/rand global source, debug.SetGCPercent) is seen by the differential oracle only",
		},
		Families: families,
		Extra: func(tier string) map[string]interface{} {
			m := map[string]interface{}{}
			if b, err := os.ReadFile(core.Root() + "/.bin/c20.racepass.json"); err == nil {
				var v interface{}
				if json.Unmarshal(b, &v) == nil {
					m["free_running_race_pass"] = v
				}
			}
			return m
		},
	})
}
