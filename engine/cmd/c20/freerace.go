//go:build vsched

package main

import (
	"encoding/json"
	"fmt"
	"os"
	"runtime"
	"sync"
)

// freeRace is the separate free-running pass of the thorough tier: no
// controlled scheduler (vsched falls back to the real sync primitives and real
// goroutines), the binary is built with -race.  Every ordered pair of the
// catalogue (and every triple i, i+1, i+2) runs on real goroutines, reps times,
// and each runtime must observe what it observes alone.  The race detector's
// reports are read from the output by run.sh.  Supplementary to the exhaustive
// exploration: it samples real schedules, but sees every memory access, marked
// by the rewriter or not.
func freeRace(reps int) {
	soloFree := map[string]string{}
	for _, sc := range catalogue {
		for slot := 0; slot < 3; slot++ {
			soloFree[fmt.Sprintf("%s/%d", sc.Name, slot)] = runOne(sc, slot).String()
		}
	}
	runs, differs := 0, 0
	runTuple := func(t []script) {
		got := make([]string, len(t))
		var wg sync.WaitGroup
		for k := range t {
			wg.Add(1)
			go func(k int) {
				defer wg.Done()
				got[k] = runOne(t[k], k).String()
			}(k)
		}
		wg.Wait()
		runs++
		for k := range t {
			if want := soloFree[fmt.Sprintf("%s/%d", t[k].Name, k)]; got[k] != want {
				differs++
				fmt.Printf("FREE-RUN-DIFFERS tuple=[%s] runtime %d (%s)\n  alone:      %s\n  concurrent: %s\n", tupleName(t), k, t[k].Name, want, got[k])
			}
		}
	}
	n := len(catalogue)
	for rep := 0; rep < reps; rep++ {
		for i := 0; i < n; i++ {
			for j := 0; j < n; j++ {
				runTuple([]script{catalogue[i], catalogue[j]})
			}
		}
		for i := 0; i < n; i++ {
			runTuple([]script{catalogue[i], catalogue[(i+1)%n], catalogue[(i+2)%n]})
		}
	}
	row, _ := json.Marshal(map[string]interface{}{"gomaxprocs": runtime.GOMAXPROCS(0), "scripts": n, "repetitions": reps, "concurrent_tuples_run": runs, "observations_differing_from_solo": differs})
	fmt.Println(string(row))
	if differs > 0 {
		os.Exit(1)
	}
}
