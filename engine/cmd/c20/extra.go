//go:build vsched

package main

import "verif/engine/core"

// extraFamilies: the sequential statement-interleaving families (package
// c20seq) are added here when available.
func extraFamilies(tier string) []*core.Family { return nil }
