//go:build vsched

package main

import (
	"verif/engine/c20seq"
	"verif/engine/core"
)

// extraFamilies: the sequential statement-interleaving families (package
// c20seq).  They run free (no controlled schedule): vsched falls back to the
// real primitives when no Run is active; c20seq re-executes this binary as a
// child process for each batch of cases (C20SEQ_CHILD).
func extraFamilies(tier string) []*core.Family { return c20seq.Families(tier) }
