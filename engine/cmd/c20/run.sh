#!/bin/bash
set -u
HERE="$(cd "$(dirname "$0")" && pwd)"
ROOT="$(cd "$HERE/../../.." && pwd)"
export VERIF_ROOT="$ROOT"
"$HERE/build.sh" || exit 2
args=()
while [ $# -gt 0 ]; do
  case "$1" in
    --tier) args+=(-tier "$2"); shift 2;;
    --replay) args+=(-replay "$2"); shift 2;;
    *) args+=("$1"); shift;;
  esac
done
# Thorough tier: separate free-running pass under the Go race detector (same
# harness bodies on real goroutines; supplementary to the exhaustive monitor).
rm -f "$ROOT/.bin/c20.racepass.json"
case " ${args[*]} " in
  *" -tier thorough "*)
    export GOFLAGS=-mod=mod GOPROXY=off GOSUMDB=off GOTOOLCHAIN=local
    export GOCACHE="${GOCACHE:-$ROOT/.cache/go-build}"
    OV="$ROOT/.bin/ov-c20"; MODFLAG=""; RBIN="$ROOT/.bin/c20-race"
    if [ -n "${VERIF_REPO:-}" ]; then OV="$ROOT/.bin/alt/ov-c20"; MODFLAG="-modfile=$ROOT/.bin/alt/c20.mod"; RBIN="$ROOT/.bin/alt/c20-race"; fi
    if (cd "$ROOT/engine" && go build -race $MODFLAG -overlay "$OV/overlay.json" -tags "verif vsched" -ldflags=-checklinkname=0 -o "$RBIN" ./cmd/c20 2>"$ROOT/.bin/c20-race.build.log"); then
      out="$ROOT/.bin/c20.racepass.out"; : > "$out"
      rc=0
      for p in 2 4 16; do
        C20_FREERACE=10 GOMAXPROCS=$p timeout 1200 "$RBIN" >>"$out" 2>&1 || rc=$?
      done
      if grep -q "DATA RACE\|FREE-RUN-DIFFERS" "$out" || { [ $rc -ne 0 ] && [ $rc -ne 124 ]; }; then
        mkdir -p "$ROOT/replays/C20"; cp "$out" "$ROOT/replays/C20/racepass.txt"
        echo "free-running race pass reported a problem (exit $rc); see replays/C20/racepass.txt"
        echo "VIOLATION property=C20 replay=$ROOT/replays/C20/racepass.txt"
        exit 1
      fi
      grep '^{' "$out" | python3 -c 'import sys,json; rows=[json.loads(l) for l in sys.stdin]; json.dump({"race_detector_reports":0,"passes":rows}, open(sys.argv[1],"w"))' "$ROOT/.bin/c20.racepass.json"
    else
      echo "note: -race build failed; race pass skipped (see .bin/c20-race.build.log)" >&2
    fi;;
esac
BIN="$ROOT/.bin/c20"; [ -n "${VERIF_REPO:-}" ] && BIN="$ROOT/.bin/alt/c20"
exec "$BIN" "${args[@]}"
