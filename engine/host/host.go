// Package host runs Lua source on the real golua pipeline and turns what the
// embedding program can see into a canonical Observation.
package host

import (
	"fmt"
	"math"
	"runtime"
	"strconv"
	"strings"

	"github.com/arnodel/golua/lib"
	rt "github.com/arnodel/golua/runtime"
)

// Obs is what the host observes of one run.
type Obs struct {
	Trace   []string // one entry per emit(...) call: canonical argument tuple
	Status  string   // ok | err | killed | gopanic | compile
	Results []string // canonical results (Status ok)
	Err     string   // canonical error value (Status err) or message
	UsedCPU uint64
	UsedMem uint64
	Ticks   int // number of tick() calls
}

func (o Obs) String() string {
	var sb strings.Builder
	sb.WriteString(o.Status)
	switch o.Status {
	case "ok":
		sb.WriteString(" (" + strings.Join(o.Results, ", ") + ")")
	default:
		sb.WriteString(" " + o.Err)
	}
	sb.WriteString(" trace=[")
	sb.WriteString(strings.Join(o.Trace, " | "))
	sb.WriteString("]")
	return sb.String()
}

// Canon numbers reference values by first occurrence.
type Canon struct {
	ids map[interface{}]int
	cnt map[byte]int
}

func NewCanon() *Canon { return &Canon{ids: map[interface{}]int{}, cnt: map[byte]int{}} }

// id numbers p within its kind (tables, threads, userdata separately).
func (c *Canon) id(kind byte, p interface{}) int {
	if k, ok := c.ids[p]; ok {
		return k
	}
	c.cnt[kind]++
	c.ids[p] = c.cnt[kind]
	return c.cnt[kind]
}

func FloatStr(f float64) string {
	switch {
	case f != f:
		return "f:nan"
	case math.IsInf(f, 1):
		return "f:inf"
	case math.IsInf(f, -1):
		return "f:-inf"
	case f == 0 && math.Signbit(f):
		return "f:-0"
	}
	return "f:" + strconv.FormatFloat(f, 'g', -1, 64)
}

func (c *Canon) Value(v rt.Value) string {
	switch v.Type() {
	case rt.NilType:
		return "nil"
	case rt.BoolType:
		if v.AsBool() {
			return "true"
		}
		return "false"
	case rt.IntType:
		return "i:" + strconv.FormatInt(v.AsInt(), 10)
	case rt.FloatType:
		return FloatStr(v.AsFloat())
	case rt.StringType:
		return "s:" + strconv.Quote(v.AsString())
	case rt.TableType:
		return "T#" + strconv.Itoa(c.id('T', v.AsTable()))
	case rt.FunctionType:
		return "F" // function identity is not observable in a specified way (§3.4.4)
	case rt.ThreadType:
		return "C#" + strconv.Itoa(c.id('C', v.AsThread()))
	case rt.UserDataType:
		return "U#" + strconv.Itoa(c.id('U', v.AsUserData()))
	}
	return "?" + v.TypeName()
}

func (c *Canon) Values(vs []rt.Value) []string {
	out := make([]string, len(vs))
	for i, v := range vs {
		out[i] = c.Value(v)
	}
	return out
}

type Opts struct {
	ChunkName string
	Args      []rt.Value
	CPU       uint64 // hard cpu limit for the whole run (0 = none)
	Mem       uint64
	Flags     rt.ComplianceFlags
	NoLibs    bool
	Setup     func(r *rt.Runtime, m *Machine)
}

// Machine is a runtime plus its observation channel.
type Machine struct {
	R     *rt.Runtime
	Canon *Canon
	Trace []string
	Ticks int
	close func()
}

const allFlags = rt.ComplyCpuSafe | rt.ComplyMemSafe | rt.ComplyIoSafe | rt.ComplyTimeSafe

// NewMachine creates a fresh runtime with the standard library and the host
// callbacks emit/tick.
func NewMachine(noLibs bool) *Machine {
	r := rt.New(nil)
	runtime.SetFinalizer(r, nil)
	m := &Machine{R: r, Canon: NewCanon()}
	if !noLibs {
		m.close = lib.LoadAll(r)
	}
	env := r.GlobalEnv()
	emit := r.SetEnvGoFunc(env, "emit", func(t *rt.Thread, c *rt.GoCont) (rt.Cont, error) {
		m.Trace = append(m.Trace, strings.Join(m.Canon.Values(c.Etc()), ","))
		return c.Next(), nil
	}, 0, true)
	tick := r.SetEnvGoFunc(env, "tick", func(t *rt.Thread, c *rt.GoCont) (rt.Cont, error) {
		m.Ticks++
		return c.Next(), nil
	}, 0, false)
	rt.SolemnlyDeclareCompliance(allFlags, emit, tick)
	return m
}

// EndState reports what a host sees of the main thread's bookkeeping between
// two calls: "" when every counter is back at rest, else the counters that
// are not (re-entrant call depth, Go function call depth, context stack depth
// and - after a call made inside a context - pending to-be-closed values).
func (m *Machine) EndState(inContext bool) string {
	t := m.R.MainThread()
	var bad []string
	if n := t.VerifReentrantCallDepth(); n != 0 {
		bad = append(bad, fmt.Sprintf("reentrant-call-depth=%d", n))
	}
	if n := t.VerifGoFunctionCallDepth(); n != 0 {
		bad = append(bad, fmt.Sprintf("go-call-depth=%d", n))
	}
	if n := m.R.VerifContextDepth(); n != 0 {
		bad = append(bad, fmt.Sprintf("context-depth=%d", n))
	}
	if n := t.VerifCloseStackSize(); n != 0 && inContext {
		bad = append(bad, fmt.Sprintf("close-stack=%d", n))
	}
	return strings.Join(bad, " ")
}

func (m *Machine) Close() {
	m.R.Close(nil)
	if m.close != nil {
		m.close()
	}
}

// Exec compiles and runs src as a chunk in the machine.
func (m *Machine) Exec(name, src string, args []rt.Value, def *rt.RuntimeContextDef) (o Obs) {
	r := m.R
	if name == "" {
		name = "chunk"
	}
	defer func() {
		if p := recover(); p != nil {
			o.Status = "gopanic"
			o.Err = firstLine(fmt.Sprint(p))
			o.Trace = m.Trace
		}
	}()
	clos, err := r.CompileAndLoadLuaChunk(name, []byte(src), rt.TableValue(r.GlobalEnv()))
	if err != nil {
		o.Status = "compile"
		o.Err = err.Error()
		return
	}
	return m.Call(rt.FunctionValue(clos), args, def)
}

// Call calls f in the main thread, optionally inside a context.
func (m *Machine) Call(f rt.Value, args []rt.Value, def *rt.RuntimeContextDef) (o Obs) {
	r := m.R
	defer func() {
		if p := recover(); p != nil {
			o.Status = "gopanic"
			o.Err = firstLine(fmt.Sprint(p))
		}
		o.Trace = m.Trace
		o.Ticks = m.Ticks
	}()
	term := rt.NewTerminationWith(nil, 0, true)
	var err error
	if def != nil {
		var ctx rt.RuntimeContext
		ctx, err = r.MainThread().CallContext(*def, func() error {
			return rt.Call(r.MainThread(), f, args, term)
		})
		u := ctx.UsedResources()
		o.UsedCPU, o.UsedMem = u.Cpu, u.Memory
		if ctx.Status() == rt.StatusKilled {
			o.Status = "killed"
			if err != nil {
				o.Err = err.Error()
			}
			return
		}
	} else {
		err = rt.Call(r.MainThread(), f, args, term)
	}
	if err != nil {
		o.Status = "err"
		o.Err = m.Canon.Value(rt.ErrorValue(err))
		return
	}
	o.Status = "ok"
	o.Results = m.Canon.Values(term.Etc())
	return
}

// Run is the one-shot form: fresh machine, run, close.
func Run(src string, opts Opts) Obs {
	m := NewMachine(opts.NoLibs)
	defer m.Close()
	if opts.Setup != nil {
		opts.Setup(m.R, m)
	}
	var def *rt.RuntimeContextDef
	if opts.CPU != 0 || opts.Mem != 0 || opts.Flags != 0 {
		def = &rt.RuntimeContextDef{
			HardLimits:    rt.RuntimeResources{Cpu: opts.CPU, Memory: opts.Mem},
			RequiredFlags: opts.Flags,
		}
	}
	return m.Exec(opts.ChunkName, src, opts.Args, def)
}

func firstLine(s string) string {
	if k := strings.IndexByte(s, '\n'); k >= 0 {
		s = s[:k]
	}
	if len(s) > 200 {
		s = s[:200]
	}
	return s
}
