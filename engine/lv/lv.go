// Package lv is a tiny golua-independent model of Lua scalar values used by
// the numeric checks (lattices, rendering as literals, canonical form).
package lv

import (
	"fmt"
	"math"
	"strconv"
	"strings"
)

type Kind int

const (
	Nil Kind = iota
	Bool
	Int
	Float
	Str
	Table // an opaque non-number
)

type V struct {
	K Kind
	B bool
	I int64
	F float64
	S string
}

func I(n int64) V   { return V{K: Int, I: n} }
func F(f float64) V { return V{K: Float, F: f} }
func S(s string) V  { return V{K: Str, S: s} }

var NilV = V{K: Nil}
var TableV = V{K: Table}

func (v V) IsNum() bool { return v.K == Int || v.K == Float }

// Canon matches host.Canon.Value for scalars.
func (v V) Canon() string {
	switch v.K {
	case Nil:
		return "nil"
	case Bool:
		if v.B {
			return "true"
		}
		return "false"
	case Int:
		return "i:" + strconv.FormatInt(v.I, 10)
	case Float:
		return FloatCanon(v.F)
	case Str:
		return "s:" + strconv.Quote(v.S)
	}
	return "T#?"
}

func FloatCanon(f float64) string {
	switch {
	case f != f:
		return "f:nan"
	case math.IsInf(f, 1):
		return "f:inf"
	case math.IsInf(f, -1):
		return "f:-inf"
	case f == 0 && math.Signbit(f):
		return "f:-0"
	}
	return "f:" + strconv.FormatFloat(f, 'g', -1, 64)
}

// Literal renders v as a Lua expression denoting exactly v, or ok=false when
// no literal-only spelling exists.
func (v V) Literal() (string, bool) {
	switch v.K {
	case Nil:
		return "nil", true
	case Bool:
		return fmt.Sprint(v.B), true
	case Int:
		if v.I == math.MinInt64 {
			return "(-9223372036854775807-1)", true
		}
		if v.I < 0 {
			return "(" + strconv.FormatInt(v.I, 10) + ")", true
		}
		return strconv.FormatInt(v.I, 10), true
	case Float:
		f := v.F
		switch {
		case f != f:
			return "(0/0)", true // sign of nan unobservable
		case math.IsInf(f, 1):
			return "(1/0)", true
		case math.IsInf(f, -1):
			return "(-1/0)", true
		case f == 0 && math.Signbit(f):
			return "(-0.0)", true
		}
		// shortest decimal that round-trips
		s := strconv.FormatFloat(math.Abs(f), 'g', -1, 64)
		if !strings.ContainsAny(s, ".e") {
			s += ".0"
		}
		if f < 0 {
			return "(-" + s + ")", true
		}
		return s, true
	case Str:
		return strconv.Quote(v.S), true // only used with plain ASCII
	case Table:
		return "{}", true
	}
	return "", false
}

func (v V) String() string { return v.Canon() }
