// Package rewrite generates, from the CURRENT files of /repo, instrumented
// copies in which goroutine synchronisation goes through the vsched shim, and
// an overlay JSON for `go build -overlay`.  /repo itself is never modified.
//
// The transformation is purely syntactic and fails loudly on any concurrency
// construct it does not understand, so that a changed thread.go is either
// explored faithfully or the check stops with exit 2 (never a silent pass).
package rewrite

import (
	"bytes"
	"encoding/json"
	"fmt"
	"go/ast"
	"go/format"
	"go/parser"
	"go/token"
	"os"
	"path/filepath"
	"strconv"
	"strings"
)

const VschedImport = "github.com/arnodel/golua/vsched"

// Options selects what is instrumented.
type Options struct {
	Repo      string // /repo
	VschedSrc string // directory with vsched.go
	OutDir    string // scratch directory for generated files
	// Files (relative to Repo) whose sync primitives are replaced.
	SyncFiles []string
	// ThreadFields: field names of Thread monitored in runtime/thread.go.
	ThreadFields []string
	// CtxFile: file whose methods on *runtimeContextManager get an Access marker.
	CtxFile string
	// ClockFile: file whose `func now() uint64` body is replaced by vsched.Clock().
	ClockFile string
	// VMFile/VMFunc: function whose top-level for-loop body gets a "vm" marker.
	VMFile string
	// Extra files replaced verbatim: repo-relative path -> replacement path.
	Replace map[string]string
	// GlobalPkgs: package directories (relative to Repo) in which every use of
	// a package-level variable inside a function body gets an Access marker.
	GlobalPkgs []string
	// GoFunctionMarks: mark the methods of *GoFunction and the entry of
	// (*GoCont).RunInThread (read marker + scheduling point).
	GoFunctionMarks bool
	// AllowSync: files that keep their own sync primitives (not driven by the
	// scheduler); the caller must argue why no second goroutine reaches them.
	AllowSync []string
}

func Default(repo, vschedSrc, out string) Options {
	return Options{
		Repo: repo, VschedSrc: vschedSrc, OutDir: out,
		SyncFiles:    []string{"runtime/thread.go", "runtime/internal/luagc/clonepool.go", "runtime/internal/luagc/unsafepool.go", "lib/base/collectgarbage.go"},
		ThreadFields: []string{"status", "caller", "closeErr", "currentCont"},
		CtxFile:      "runtime/runtimecontextmanager.go",
		ClockFile:    "runtime/runtimecontextmanager.go",
		VMFile:       "runtime/thread.go",
	}
}

type fileRW struct {
	fset     *token.FileSet
	f        *ast.File
	rel      string
	chanElem map[string]ast.Expr // field/var name -> element type
	usedV    bool
	errs     []string
}

func (w *fileRW) failf(pos token.Pos, format string, a ...interface{}) {
	w.errs = append(w.errs, fmt.Sprintf("%s: %s", w.fset.Position(pos), fmt.Sprintf(format, a...)))
}

func vsel(name string) ast.Expr {
	return &ast.SelectorExpr{X: ast.NewIdent("vsched"), Sel: ast.NewIdent(name)}
}

func lastIdent(e ast.Expr) string {
	switch x := e.(type) {
	case *ast.Ident:
		return x.Name
	case *ast.SelectorExpr:
		return x.Sel.Name
	case *ast.ParenExpr:
		return lastIdent(x.X)
	}
	return ""
}

// Generate writes the instrumented files and overlay.json; it returns the
// overlay path and a human readable summary of what was rewritten.
func Generate(o Options) (overlayPath string, summary []string, err error) {
	if err = os.MkdirAll(o.OutDir, 0755); err != nil {
		return
	}
	overlay := map[string]string{}
	files := map[string]*fileRW{}
	load := func(rel string) (*fileRW, error) {
		if w, ok := files[rel]; ok {
			return w, nil
		}
		fset := token.NewFileSet()
		f, err := parser.ParseFile(fset, filepath.Join(o.Repo, rel), nil, parser.ParseComments)
		if err != nil {
			return nil, err
		}
		w := &fileRW{fset: fset, f: f, rel: rel, chanElem: map[string]ast.Expr{}}
		files[rel] = w
		return w, nil
	}
	// Any other non-test file of runtime/ or lib/ that uses sync.Mutex,
	// channels or go statements (e.g. one added by a later change) is driven
	// too; constructs the rewriter cannot express still make it fail loudly.
	o.SyncFiles = append(o.SyncFiles, discoverSyncFiles(o)...)
	for _, rel := range o.SyncFiles {
		w, e := load(rel)
		if e != nil {
			return "", nil, e
		}
		n := w.rewriteSync()
		summary = append(summary, fmt.Sprintf("%s: %s", rel, n))
	}
	if o.VMFile != "" {
		w, e := load(o.VMFile)
		if e != nil {
			return "", nil, e
		}
		n := w.markThreadFields(o.ThreadFields, "thread.")
		m := w.markVM()
		summary = append(summary, fmt.Sprintf("%s: %d thread-field access markers, %d vm markers", o.VMFile, n, m))
		if m == 0 {
			w.failf(w.f.Pos(), "no RunContinuation loop found for the vm marker")
		}
	}
	if o.CtxFile != "" {
		w, e := load(o.CtxFile)
		if e != nil {
			return "", nil, e
		}
		n := w.markCtxMethods()
		summary = append(summary, fmt.Sprintf("%s: %d context-manager method markers", o.CtxFile, n))
		if n == 0 {
			w.failf(w.f.Pos(), "no runtimeContextManager methods found")
		}
	}
	if o.ClockFile != "" {
		w, e := load(o.ClockFile)
		if e != nil {
			return "", nil, e
		}
		if !w.replaceNow() {
			w.failf(w.f.Pos(), "func now() uint64 not found")
		}
	}
	if o.GoFunctionMarks {
		w, e := load("runtime/gofunction.go")
		if e != nil {
			return "", nil, e
		}
		n := w.markThreadFields([]string{"safetyFlags"}, "gofunction.")
		w2, e := load("runtime/gocont.go")
		if e != nil {
			return "", nil, e
		}
		ok := w2.insertAtEntry("GoCont", "RunInThread", func(recv string) []ast.Stmt {
			return []ast.Stmt{
				accessCall(&ast.SelectorExpr{X: ast.NewIdent(recv), Sel: ast.NewIdent("GoFunction")}, "gofunction.safetyFlags", false, "GoCont.RunInThread"),
				&ast.ExprStmt{X: &ast.CallExpr{Fun: vsel("Point"), Args: []ast.Expr{&ast.BasicLit{Kind: token.STRING, Value: strconv.Quote("gofunc")}}}},
			}
		})
		if n == 0 || !ok {
			w.failf(w.f.Pos(), "GoFunction methods / GoCont.RunInThread not found")
		}
		summary = append(summary, fmt.Sprintf("runtime/gofunction.go: %d GoFunction.safetyFlags access markers; GoCont.RunInThread entry marker+point", n))
	}
	for _, dir := range o.GlobalPkgs {
		n, names, e := markGlobals(o, dir, load)
		if e != nil {
			return "", nil, e
		}
		summary = append(summary, fmt.Sprintf("%s: %d package-level variable access markers (%s)", dir, n, strings.Join(names, " ")))
	}
	// any other concurrency in runtime/ and lib/ that we do not drive?
	if e := checkNoOtherConcurrency(o, files); e != nil {
		return "", nil, e
	}
	var allErrs []string
	for rel, w := range files {
		allErrs = append(allErrs, w.errs...)
		if len(w.errs) > 0 {
			continue
		}
		if w.usedV {
			addImport(w.f, VschedImport)
		}
		dropUnusedImport(w.f, "sync")
		dropUnusedImport(w.f, "time")
		var buf bytes.Buffer
		// Comments are dropped (their positions no longer fit); build
		// constraints are re-emitted verbatim.
		for _, cg := range w.f.Comments {
			if cg.Pos() > w.f.Package {
				break
			}
			for _, c := range cg.List {
				if strings.HasPrefix(c.Text, "//go:build") || strings.HasPrefix(c.Text, "// +build") {
					buf.WriteString(c.Text + "\n")
				}
			}
		}
		if buf.Len() > 0 {
			buf.WriteString("\n")
		}
		w.f.Comments = nil
		w.f.Doc = nil
		if e := format.Node(&buf, w.fset, w.f); e != nil {
			return "", nil, fmt.Errorf("%s: %v", rel, e)
		}
		out := filepath.Join(o.OutDir, strings.ReplaceAll(rel, "/", "__"))
		if e := os.WriteFile(out, buf.Bytes(), 0644); e != nil {
			return "", nil, e
		}
		overlay[filepath.Join(o.Repo, rel)] = out
	}
	if len(allErrs) > 0 {
		return "", nil, fmt.Errorf("rewriter cannot handle the current sources:\n  %s", strings.Join(allErrs, "\n  "))
	}
	for rel, repl := range o.Replace {
		overlay[filepath.Join(o.Repo, rel)] = repl
	}
	ents, e := os.ReadDir(o.VschedSrc)
	if e != nil {
		return "", nil, e
	}
	for _, ent := range ents {
		if strings.HasSuffix(ent.Name(), ".go") {
			overlay[filepath.Join(o.Repo, "vsched", ent.Name())] = filepath.Join(o.VschedSrc, ent.Name())
		}
	}
	b, _ := json.MarshalIndent(map[string]interface{}{"Replace": overlay}, "", " ")
	overlayPath = filepath.Join(o.OutDir, "overlay.json")
	err = os.WriteFile(overlayPath, b, 0644)
	return
}

func addImport(f *ast.File, path string) {
	for _, im := range f.Imports {
		if im.Path.Value == strconv.Quote(path) {
			return
		}
	}
	spec := &ast.ImportSpec{Path: &ast.BasicLit{Kind: token.STRING, Value: strconv.Quote(path)}}
	for _, d := range f.Decls {
		if gd, ok := d.(*ast.GenDecl); ok && gd.Tok == token.IMPORT {
			gd.Specs = append(gd.Specs, spec)
			if !gd.Lparen.IsValid() {
				gd.Lparen = gd.Pos()
				gd.Rparen = gd.End()
			}
			f.Imports = append(f.Imports, spec)
			return
		}
	}
	gd := &ast.GenDecl{Tok: token.IMPORT, Specs: []ast.Spec{spec}}
	f.Decls = append([]ast.Decl{gd}, f.Decls...)
	f.Imports = append(f.Imports, spec)
}

func dropUnusedImport(f *ast.File, name string) {
	used := false
	ast.Inspect(f, func(n ast.Node) bool {
		if se, ok := n.(*ast.SelectorExpr); ok {
			if id, ok := se.X.(*ast.Ident); ok && id.Name == name && id.Obj == nil {
				used = true
			}
		}
		return true
	})
	if used {
		return
	}
	for _, d := range f.Decls {
		gd, ok := d.(*ast.GenDecl)
		if !ok || gd.Tok != token.IMPORT {
			continue
		}
		var keep []ast.Spec
		for _, sp := range gd.Specs {
			is := sp.(*ast.ImportSpec)
			if is.Path.Value == strconv.Quote(name) && is.Name == nil {
				continue
			}
			keep = append(keep, sp)
		}
		gd.Specs = keep
	}
	var keepI []*ast.ImportSpec
	for _, is := range f.Imports {
		if is.Path.Value == strconv.Quote(name) && is.Name == nil {
			continue
		}
		keepI = append(keepI, is)
	}
	f.Imports = keepI
	// remove empty import decls
	var decls []ast.Decl
	for _, d := range f.Decls {
		if gd, ok := d.(*ast.GenDecl); ok && gd.Tok == token.IMPORT && len(gd.Specs) == 0 {
			continue
		}
		decls = append(decls, d)
	}
	f.Decls = decls
}

// rewriteSync replaces sync.Mutex, chan types, make(chan), send, receive,
// close and go statements.
func (w *fileRW) rewriteSync() string {
	var nMutex, nChan, nSend, nRecv, nClose, nGo int
	// pass 1: collect channel typed fields / vars
	ast.Inspect(w.f, func(n ast.Node) bool {
		switch x := n.(type) {
		case *ast.Field:
			if ct, ok := x.Type.(*ast.ChanType); ok {
				for _, nm := range x.Names {
					w.chanElem[nm.Name] = ct.Value
				}
			}
		case *ast.ValueSpec:
			if ct, ok := x.Type.(*ast.ChanType); ok {
				for _, nm := range x.Names {
					w.chanElem[nm.Name] = ct.Value
				}
			}
		case *ast.KeyValueExpr:
			// resumeCh: make(chan T)
			if call, ok := x.Value.(*ast.CallExpr); ok && isIdent(call.Fun, "make") && len(call.Args) >= 1 {
				if ct, ok := call.Args[0].(*ast.ChanType); ok {
					if k := lastIdent(x.Key); k != "" {
						w.chanElem[k] = ct.Value
					}
				}
			}
		case *ast.AssignStmt:
			for i, r := range x.Rhs {
				if call, ok := r.(*ast.CallExpr); ok && isIdent(call.Fun, "make") && len(call.Args) >= 1 && i < len(x.Lhs) {
					if ct, ok := call.Args[0].(*ast.ChanType); ok {
						if k := lastIdent(x.Lhs[i]); k != "" {
							w.chanElem[k] = ct.Value
						}
					}
				}
			}
		}
		return true
	})
	var rewriteExpr func(e ast.Expr) ast.Expr
	rewriteExpr = func(e ast.Expr) ast.Expr {
		switch x := e.(type) {
		case *ast.SelectorExpr:
			if id, ok := x.X.(*ast.Ident); ok && id.Name == "sync" {
				if x.Sel.Name == "Mutex" {
					nMutex++
					w.usedV = true
					return vsel("Mutex")
				}
				w.failf(x.Pos(), "unsupported sync.%s", x.Sel.Name)
			}
			if id, ok := x.X.(*ast.Ident); ok && id.Name == "atomic" {
				w.failf(x.Pos(), "unsupported atomic.%s", x.Sel.Name)
			}
		case *ast.ChanType:
			if x.Dir != ast.SEND|ast.RECV {
				w.failf(x.Pos(), "directional channel types are not supported")
			}
			nChan++
			w.usedV = true
			return &ast.StarExpr{X: vsel("Chan")}
		case *ast.CallExpr:
			if isIdent(x.Fun, "make") && len(x.Args) >= 1 {
				// the argument has already been rewritten (bottom-up) to *vsched.Chan
				if st, ok := x.Args[0].(*ast.StarExpr); ok {
					if se, ok := st.X.(*ast.SelectorExpr); ok && isIdent(se.X, "vsched") && se.Sel.Name == "Chan" {
						if len(x.Args) != 1 {
							w.failf(x.Pos(), "buffered channels are not supported")
						}
						w.usedV = true
						return &ast.CallExpr{Fun: vsel("NewChan")}
					}
				}
			}
			if isIdent(x.Fun, "close") && len(x.Args) == 1 {
				if _, ok := w.chanElem[lastIdent(x.Args[0])]; ok {
					nClose++
					return &ast.CallExpr{Fun: &ast.SelectorExpr{X: x.Args[0], Sel: ast.NewIdent("Close")}}
				}
				w.failf(x.Pos(), "close() of something that is not a known channel")
			}
		case *ast.UnaryExpr:
			if x.Op == token.ARROW {
				el, ok := w.chanElem[lastIdent(x.X)]
				if !ok {
					w.failf(x.Pos(), "receive from an unknown channel expression")
					return e
				}
				nRecv++
				return &ast.TypeAssertExpr{
					X:    &ast.CallExpr{Fun: &ast.SelectorExpr{X: x.X, Sel: ast.NewIdent("Recv")}},
					Type: el,
				}
			}
		}
		return e
	}
	var visit func(n ast.Node) bool
	rewriteStmtList := func(list []ast.Stmt) {
		for i, st := range list {
			switch x := st.(type) {
			case *ast.SendStmt:
				if _, ok := w.chanElem[lastIdent(x.Chan)]; !ok {
					w.failf(x.Pos(), "send on an unknown channel expression")
				}
				nSend++
				list[i] = &ast.ExprStmt{X: &ast.CallExpr{
					Fun:  &ast.SelectorExpr{X: x.Chan, Sel: ast.NewIdent("Send")},
					Args: []ast.Expr{x.Value},
				}}
			case *ast.GoStmt:
				if len(x.Call.Args) != 0 {
					w.failf(x.Pos(), "go statement with arguments is not supported")
				}
				nGo++
				w.usedV = true
				var fn ast.Expr
				if fl, ok := x.Call.Fun.(*ast.FuncLit); ok {
					fn = fl
				} else {
					fn = &ast.FuncLit{Type: &ast.FuncType{Params: &ast.FieldList{}},
						Body: &ast.BlockStmt{List: []ast.Stmt{&ast.ExprStmt{X: x.Call}}}}
				}
				list[i] = &ast.ExprStmt{X: &ast.CallExpr{Fun: vsel("Go"), Args: []ast.Expr{fn}}}
			case *ast.SelectStmt:
				w.failf(x.Pos(), "select is not supported")
			}
		}
	}
	visit = func(n ast.Node) bool {
		switch x := n.(type) {
		case *ast.BlockStmt:
			rewriteStmtList(x.List)
		case *ast.CaseClause:
			rewriteStmtList(x.Body)
		case *ast.CommClause:
			rewriteStmtList(x.Body)
		case *ast.RangeStmt:
			if _, ok := w.chanElem[lastIdent(x.X)]; ok {
				w.failf(x.Pos(), "range over channel is not supported")
			}
		}
		return true
	}
	ast.Inspect(w.f, visit)
	// expression rewriting: replace in all parents
	rewriteChildren(w.f, rewriteExpr)
	return fmt.Sprintf("%d mutex types, %d chan types, %d sends, %d receives, %d closes, %d go statements", nMutex, nChan, nSend, nRecv, nClose, nGo)
}

func isIdent(e ast.Expr, name string) bool {
	id, ok := e.(*ast.Ident)
	return ok && id.Name == name
}

// rewriteChildren applies f bottom-up to every expression slot reachable
// from root.
func rewriteChildren(root ast.Node, f func(ast.Expr) ast.Expr) {
	var rw func(e ast.Expr) ast.Expr
	rwList := func(l []ast.Expr) {
		for i := range l {
			l[i] = rw(l[i])
		}
	}
	var walkNode func(n ast.Node)
	rw = func(e ast.Expr) ast.Expr {
		if e == nil {
			return nil
		}
		walkNode(e)
		return f(e)
	}
	walkNode = func(n ast.Node) {
		switch x := n.(type) {
		case *ast.File:
			for _, d := range x.Decls {
				walkNode(d)
			}
		case *ast.GenDecl:
			for _, s := range x.Specs {
				walkNode(s)
			}
		case *ast.ValueSpec:
			x.Type = rw(x.Type)
			rwList(x.Values)
		case *ast.TypeSpec:
			x.Type = rw(x.Type)
		case *ast.ImportSpec:
		case *ast.FuncDecl:
			if x.Recv != nil {
				walkNode(x.Recv)
			}
			walkNode(x.Type)
			if x.Body != nil {
				walkNode(x.Body)
			}
		case *ast.FieldList:
			if x == nil {
				return
			}
			for _, fl := range x.List {
				fl.Type = rw(fl.Type)
			}
		case *ast.FuncType:
			walkNode(x.Params)
			if x.Results != nil {
				walkNode(x.Results)
			}
		case *ast.StructType:
			walkNode(x.Fields)
		case *ast.InterfaceType:
			walkNode(x.Methods)
		case *ast.ArrayType:
			x.Len = rw(x.Len)
			x.Elt = rw(x.Elt)
		case *ast.MapType:
			x.Key = rw(x.Key)
			x.Value = rw(x.Value)
		case *ast.ChanType:
			x.Value = rw(x.Value)
		case *ast.StarExpr:
			x.X = rw(x.X)
		case *ast.Ellipsis:
			x.Elt = rw(x.Elt)
		case *ast.FuncLit:
			walkNode(x.Type)
			walkNode(x.Body)
		case *ast.CompositeLit:
			x.Type = rw(x.Type)
			rwList(x.Elts)
		case *ast.ParenExpr:
			x.X = rw(x.X)
		case *ast.SelectorExpr:
			x.X = rw(x.X)
		case *ast.IndexExpr:
			x.X = rw(x.X)
			x.Index = rw(x.Index)
		case *ast.SliceExpr:
			x.X = rw(x.X)
			x.Low = rw(x.Low)
			x.High = rw(x.High)
			x.Max = rw(x.Max)
		case *ast.TypeAssertExpr:
			x.X = rw(x.X)
			x.Type = rw(x.Type)
		case *ast.CallExpr:
			x.Fun = rw(x.Fun)
			rwList(x.Args)
		case *ast.UnaryExpr:
			x.X = rw(x.X)
		case *ast.BinaryExpr:
			x.X = rw(x.X)
			x.Y = rw(x.Y)
		case *ast.KeyValueExpr:
			x.Key = rw(x.Key)
			x.Value = rw(x.Value)
		case *ast.BlockStmt:
			for _, s := range x.List {
				walkNode(s)
			}
		case *ast.ExprStmt:
			x.X = rw(x.X)
		case *ast.SendStmt:
			x.Chan = rw(x.Chan)
			x.Value = rw(x.Value)
		case *ast.IncDecStmt:
			x.X = rw(x.X)
		case *ast.AssignStmt:
			rwList(x.Lhs)
			rwList(x.Rhs)
		case *ast.GoStmt:
			x.Call = rw(x.Call).(*ast.CallExpr)
		case *ast.DeferStmt:
			walkNode(x.Call)
		case *ast.ReturnStmt:
			rwList(x.Results)
		case *ast.IfStmt:
			if x.Init != nil {
				walkNode(x.Init)
			}
			x.Cond = rw(x.Cond)
			walkNode(x.Body)
			if x.Else != nil {
				walkNode(x.Else)
			}
		case *ast.CaseClause:
			rwList(x.List)
			for _, s := range x.Body {
				walkNode(s)
			}
		case *ast.SwitchStmt:
			if x.Init != nil {
				walkNode(x.Init)
			}
			x.Tag = rw(x.Tag)
			walkNode(x.Body)
		case *ast.TypeSwitchStmt:
			if x.Init != nil {
				walkNode(x.Init)
			}
			walkNode(x.Assign)
			walkNode(x.Body)
		case *ast.ForStmt:
			if x.Init != nil {
				walkNode(x.Init)
			}
			x.Cond = rw(x.Cond)
			if x.Post != nil {
				walkNode(x.Post)
			}
			walkNode(x.Body)
		case *ast.RangeStmt:
			x.Key = rw(x.Key)
			x.Value = rw(x.Value)
			x.X = rw(x.X)
			walkNode(x.Body)
		case *ast.DeclStmt:
			walkNode(x.Decl)
		case *ast.LabeledStmt:
			walkNode(x.Stmt)
		case *ast.SelectStmt:
			walkNode(x.Body)
		case *ast.CommClause:
			if x.Comm != nil {
				walkNode(x.Comm)
			}
			for _, s := range x.Body {
				walkNode(s)
			}
		}
	}
	walkNode(root)
}

func accessCall(obj ast.Expr, name string, write bool, site string) ast.Stmt {
	wr := "false"
	if write {
		wr = "true"
	}
	return &ast.ExprStmt{X: &ast.CallExpr{Fun: vsel("Access"), Args: []ast.Expr{
		obj,
		&ast.BasicLit{Kind: token.STRING, Value: strconv.Quote(name)},
		ast.NewIdent(wr),
		&ast.BasicLit{Kind: token.STRING, Value: strconv.Quote(site)},
	}}}
}

// markThreadFields inserts Access markers before every statement whose header
// mentions X.<field> for the monitored Thread fields.
func (w *fileRW) markThreadFields(fields []string, prefix string) int {
	want := map[string]bool{}
	for _, f := range fields {
		want[f] = true
	}
	count := 0
	var curFunc string
	type use struct {
		obj   ast.Expr
		field string
		write bool
	}
	headerUses := func(st ast.Stmt) []use {
		var uses []use
		seen := map[string]bool{}
		add := func(se *ast.SelectorExpr, write bool) {
			id, ok := se.X.(*ast.Ident)
			if !ok {
				return
			}
			k := id.Name + "." + se.Sel.Name
			if write {
				k += "!"
			}
			if seen[k] {
				return
			}
			seen[k] = true
			uses = append(uses, use{ast.NewIdent(id.Name), se.Sel.Name, write})
		}
		var scan func(n ast.Node, write bool)
		scan = func(n ast.Node, write bool) {
			if n == nil {
				return
			}
			ast.Inspect(n, func(m ast.Node) bool {
				switch y := m.(type) {
				case *ast.BlockStmt, *ast.FuncLit:
					return false // nested statements are handled on their own
				case *ast.SelectorExpr:
					if want[y.Sel.Name] {
						add(y, write)
					}
				}
				return true
			})
		}
		switch x := st.(type) {
		case *ast.AssignStmt:
			for _, l := range x.Lhs {
				if se, ok := l.(*ast.SelectorExpr); ok && want[se.Sel.Name] {
					add(se, true)
				} else {
					scan(l, false)
				}
			}
			for _, r := range x.Rhs {
				scan(r, false)
			}
		case *ast.IfStmt:
			scan(x.Init, false)
			scan(x.Cond, false)
		case *ast.SwitchStmt:
			scan(x.Init, false)
			scan(x.Tag, false)
			for _, cc := range x.Body.List {
				for _, e := range cc.(*ast.CaseClause).List {
					scan(e, false)
				}
			}
		case *ast.ForStmt:
			scan(x.Cond, false)
		case *ast.ReturnStmt, *ast.ExprStmt, *ast.IncDecStmt, *ast.DeferStmt:
			scan(x, false)
		}
		return uses
	}
	var doList func(list []ast.Stmt) []ast.Stmt
	var doStmt func(st ast.Stmt)
	doList = func(list []ast.Stmt) []ast.Stmt {
		var out []ast.Stmt
		for _, st := range list {
			for _, u := range headerUses(st) {
				site := fmt.Sprintf("%s.%s:%d", curFunc, u.field, w.fset.Position(st.Pos()).Line)
				out = append(out, accessCall(u.obj, prefix+u.field, u.write, site))
				w.usedV = true
				count++
			}
			doStmt(st)
			out = append(out, st)
		}
		return out
	}
	doStmt = func(st ast.Stmt) {
		switch x := st.(type) {
		case *ast.BlockStmt:
			x.List = doList(x.List)
		case *ast.IfStmt:
			doStmt(x.Body)
			if x.Else != nil {
				doStmt(x.Else)
			}
		case *ast.ForStmt:
			doStmt(x.Body)
		case *ast.RangeStmt:
			doStmt(x.Body)
		case *ast.SwitchStmt:
			for _, cc := range x.Body.List {
				c := cc.(*ast.CaseClause)
				c.Body = doList(c.Body)
			}
		case *ast.TypeSwitchStmt:
			for _, cc := range x.Body.List {
				c := cc.(*ast.CaseClause)
				c.Body = doList(c.Body)
			}
		case *ast.ExprStmt:
			// go func(){...}() / vsched.Go(func(){...}) / defer func(){...}()
			ast.Inspect(x.X, func(m ast.Node) bool {
				if fl, ok := m.(*ast.FuncLit); ok {
					doStmt(fl.Body)
					return false
				}
				return true
			})
		case *ast.DeferStmt:
			if fl, ok := x.Call.Fun.(*ast.FuncLit); ok {
				doStmt(fl.Body)
			}
		case *ast.GoStmt:
			if fl, ok := x.Call.Fun.(*ast.FuncLit); ok {
				doStmt(fl.Body)
			}
		}
	}
	for _, d := range w.f.Decls {
		fd, ok := d.(*ast.FuncDecl)
		if !ok || fd.Body == nil {
			continue
		}
		curFunc = fd.Name.Name
		doStmt(fd.Body)
	}
	return count
}

// markVM puts a "vm" write marker at the top of the for loop of
// (*Thread).RunContinuation.
func (w *fileRW) markVM() int {
	n := 0
	for _, d := range w.f.Decls {
		fd, ok := d.(*ast.FuncDecl)
		if !ok || fd.Name.Name != "RunContinuation" || fd.Recv == nil || fd.Body == nil {
			continue
		}
		recv := fd.Recv.List[0].Names[0].Name
		for _, st := range fd.Body.List {
			if fs, ok := st.(*ast.ForStmt); ok {
				mark := accessCall(&ast.SelectorExpr{X: ast.NewIdent(recv), Sel: ast.NewIdent("Runtime")}, "vm", true, "RunContinuation")
				fs.Body.List = append([]ast.Stmt{mark}, fs.Body.List...)
				w.usedV = true
				n++
			}
		}
	}
	return n
}

// markCtxMethods inserts an Access marker at the entry of every method of
// *runtimeContextManager.  A method is a read if its body neither assigns
// through the receiver nor calls another method on the receiver.
func (w *fileRW) markCtxMethods() int { return w.markMethods("runtimeContextManager", "ctx") }

// insertAtEntry prepends statements to the body of method recvType.name.
func (w *fileRW) insertAtEntry(recvType, name string, mk func(recv string) []ast.Stmt) bool {
	for _, d := range w.f.Decls {
		fd, ok := d.(*ast.FuncDecl)
		if !ok || fd.Recv == nil || fd.Body == nil || fd.Name.Name != name || len(fd.Recv.List) != 1 || len(fd.Recv.List[0].Names) == 0 {
			continue
		}
		st, ok := fd.Recv.List[0].Type.(*ast.StarExpr)
		if !ok || !isIdent(st.X, recvType) {
			continue
		}
		fd.Body.List = append(mk(fd.Recv.List[0].Names[0].Name), fd.Body.List...)
		w.usedV = true
		return true
	}
	return false
}

// markMethods inserts an Access marker at the entry of every method with
// receiver *typeName.
func (w *fileRW) markMethods(typeName, locName string) int {
	n := 0
	for _, d := range w.f.Decls {
		fd, ok := d.(*ast.FuncDecl)
		if !ok || fd.Recv == nil || fd.Body == nil || len(fd.Recv.List) != 1 {
			continue
		}
		st, ok := fd.Recv.List[0].Type.(*ast.StarExpr)
		if !ok || !isIdent(st.X, typeName) || len(fd.Recv.List[0].Names) == 0 {
			continue
		}
		recv := fd.Recv.List[0].Names[0].Name
		write := false
		ast.Inspect(fd.Body, func(m ast.Node) bool {
			switch y := m.(type) {
			case *ast.AssignStmt:
				for _, l := range y.Lhs {
					if rootIdent(l) == recv {
						write = true
					}
				}
			case *ast.IncDecStmt:
				if rootIdent(y.X) == recv {
					write = true
				}
			case *ast.CallExpr:
				if se, ok := y.Fun.(*ast.SelectorExpr); ok && rootIdent(se.X) == recv {
					write = true
				}
			}
			return true
		})
		mark := accessCall(ast.NewIdent(recv), locName, write, locName+"."+fd.Name.Name)
		fd.Body.List = append([]ast.Stmt{mark}, fd.Body.List...)
		w.usedV = true
		n++
	}
	return n
}

func rootIdent(e ast.Expr) string {
	for {
		switch x := e.(type) {
		case *ast.Ident:
			return x.Name
		case *ast.SelectorExpr:
			e = x.X
		case *ast.StarExpr:
			e = x.X
		case *ast.ParenExpr:
			e = x.X
		case *ast.IndexExpr:
			e = x.X
		default:
			return ""
		}
	}
}

func (w *fileRW) replaceNow() bool {
	for _, d := range w.f.Decls {
		fd, ok := d.(*ast.FuncDecl)
		if !ok || fd.Name.Name != "now" || fd.Recv != nil || fd.Body == nil {
			continue
		}
		fd.Body.List = []ast.Stmt{&ast.ReturnStmt{Results: []ast.Expr{&ast.CallExpr{Fun: vsel("Clock")}}}}
		w.usedV = true
		return true
	}
	return false
}

// checkNoOtherConcurrency scans runtime/ and lib/ (non-test files) for
// goroutine or synchronisation constructs outside the instrumented files.
func checkNoOtherConcurrency(o Options, done map[string]*fileRW) error {
	var bad []string
	instrumented := map[string]bool{}
	for _, rel := range o.SyncFiles {
		instrumented[rel] = true
	}
	for _, rel := range o.AllowSync {
		instrumented[rel] = true
	}
	for _, top := range []string{"runtime", "lib"} {
		filepath.Walk(filepath.Join(o.Repo, top), func(p string, info os.FileInfo, err error) error {
			if err != nil || info.IsDir() || !strings.HasSuffix(p, ".go") || strings.HasSuffix(p, "_test.go") {
				return nil
			}
			rel, _ := filepath.Rel(o.Repo, p)
			if instrumented[rel] || strings.HasPrefix(rel, "lib/golib") {
				return nil
			}
			fset := token.NewFileSet()
			f, e := parser.ParseFile(fset, p, nil, 0)
			if e != nil {
				return nil // the build will report it
			}
			ast.Inspect(f, func(n ast.Node) bool {
				switch x := n.(type) {
				case *ast.GoStmt:
					bad = append(bad, fmt.Sprintf("%s: go statement", fset.Position(x.Pos())))
				case *ast.SelectStmt:
					bad = append(bad, fmt.Sprintf("%s: select", fset.Position(x.Pos())))
				case *ast.ChanType:
					bad = append(bad, fmt.Sprintf("%s: channel type", fset.Position(x.Pos())))
				case *ast.SelectorExpr:
					if id, ok := x.X.(*ast.Ident); ok && (id.Name == "sync" || id.Name == "atomic") && id.Obj == nil {
						bad = append(bad, fmt.Sprintf("%s: %s.%s", fset.Position(x.Pos()), id.Name, x.Sel.Name))
					}
				}
				return true
			})
			return nil
		})
	}
	if len(bad) > 0 {
		return fmt.Errorf("concurrency constructs outside the instrumented files (the scheduler would not control them):\n  %s", strings.Join(bad, "\n  "))
	}
	return nil
}

// markGlobals marks every use of a package-level variable of the package in
// dir inside function bodies.  Identifier resolution is go/parser's (plus
// ast.NewPackage for cross-file package scope), so locals that shadow a global
// are not mistaken for it.
func markGlobals(o Options, dir string, load func(string) (*fileRW, error)) (int, []string, error) {
	ents, err := os.ReadDir(filepath.Join(o.Repo, dir))
	if err != nil {
		return 0, nil, err
	}
	var ws []*fileRW
	for _, ent := range ents {
		nm := ent.Name()
		if ent.IsDir() || !strings.HasSuffix(nm, ".go") || strings.HasSuffix(nm, "_test.go") {
			continue
		}
		w, e := load(filepath.Join(dir, nm))
		if e != nil {
			return 0, nil, e
		}
		ws = append(ws, w)
	}
	// package-level variable names -> declared (by name; files with exclusive
	// build tags may declare the same name twice, which is fine here)
	globals := map[string]bool{}
	for _, w := range ws {
		for _, d := range w.f.Decls {
			gd, ok := d.(*ast.GenDecl)
			if !ok || gd.Tok != token.VAR {
				continue
			}
			for _, sp := range gd.Specs {
				for _, nm := range sp.(*ast.ValueSpec).Names {
					if nm.Name != "_" {
						globals[nm.Name] = true
					}
				}
			}
		}
	}
	pkgName := filepath.Base(dir)
	total := 0
	used := map[string]bool{}
	for _, w := range ws {
		// An identifier refers to the package-level variable iff its name is a
		// global and the parser did not resolve it to a local object (file-level
		// resolution leaves cross-file package identifiers unresolved, and
		// resolves same-file ones to the package-level ValueSpec).
		isGlobal := func(id *ast.Ident) bool {
			if !globals[id.Name] {
				return false
			}
			if id.Obj == nil {
				return true
			}
			if id.Obj.Kind != ast.Var {
				return false
			}
			vs, ok := id.Obj.Decl.(*ast.ValueSpec)
			if !ok {
				return false
			}
			for _, d := range w.f.Decls {
				if gd, ok := d.(*ast.GenDecl); ok && gd.Tok == token.VAR {
					for _, sp := range gd.Specs {
						if sp == ast.Spec(vs) {
							return true
						}
					}
				}
			}
			return false
		}
		n := w.markIdentUses(isGlobal, func(id *ast.Ident) string {
			used[id.Name] = true
			return "global:" + pkgName + "." + id.Name
		})
		total += n
	}
	var names []string
	for k := range used {
		names = append(names, k)
	}
	sortStrings(names)
	return total, names, nil
}

func sortStrings(a []string) {
	for i := 1; i < len(a); i++ {
		for j := i; j > 0 && a[j] < a[j-1]; j-- {
			a[j], a[j-1] = a[j-1], a[j]
		}
	}
}

// markIdentUses inserts, before every statement whose header uses an
// identifier accepted by match (not as a selector's field name), an Access
// marker for it.
func (w *fileRW) markIdentUses(match func(*ast.Ident) bool, loc func(*ast.Ident) string) int {
	count := 0
	var curFunc string
	type use struct {
		id    *ast.Ident
		write bool
	}
	headerUses := func(st ast.Stmt) []use {
		var uses []use
		seen := map[string]bool{}
		add := func(id *ast.Ident, write bool) {
			k := id.Name
			if write {
				k += "!"
			}
			if seen[k] {
				return
			}
			seen[k] = true
			uses = append(uses, use{id, write})
		}
		var scan func(n ast.Node, write bool)
		scan = func(n ast.Node, write bool) {
			if n == nil {
				return
			}
			ast.Inspect(n, func(m ast.Node) bool {
				switch y := m.(type) {
				case *ast.BlockStmt, *ast.FuncLit:
					return false
				case *ast.SelectorExpr:
					scan(y.X, write)
					return false // never look at the field name
				case *ast.KeyValueExpr:
					// struct literal keys are field names, not variables
					scan(y.Value, false)
					if _, isId := y.Key.(*ast.Ident); !isId {
						scan(y.Key, false)
					}
					return false
				case *ast.UnaryExpr:
					if y.Op == token.AND {
						scan(y.X, true)
						return false
					}
				case *ast.Ident:
					if match(y) {
						add(y, write)
					}
				}
				return true
			})
		}
		switch x := st.(type) {
		case *ast.AssignStmt:
			for _, l := range x.Lhs {
				if x.Tok == token.DEFINE {
					continue
				}
				scan(l, true)
			}
			for _, r := range x.Rhs {
				scan(r, false)
			}
		case *ast.IncDecStmt:
			scan(x.X, true)
		case *ast.IfStmt:
			if x.Init != nil {
				if as, ok := x.Init.(*ast.AssignStmt); ok {
					for _, r := range as.Rhs {
						scan(r, false)
					}
				}
			}
			scan(x.Cond, false)
		case *ast.SwitchStmt:
			scan(x.Tag, false)
		case *ast.ForStmt:
			scan(x.Cond, false)
		case *ast.RangeStmt:
			scan(x.X, false)
		case *ast.ReturnStmt, *ast.ExprStmt, *ast.DeferStmt, *ast.GoStmt, *ast.SendStmt:
			scan(x, false)
		case *ast.DeclStmt:
			if gd, ok := x.Decl.(*ast.GenDecl); ok {
				for _, sp := range gd.Specs {
					if vs, ok := sp.(*ast.ValueSpec); ok {
						for _, v := range vs.Values {
							scan(v, false)
						}
					}
				}
			}
		}
		return uses
	}
	var doList func(list []ast.Stmt) []ast.Stmt
	var doStmt func(st ast.Stmt)
	doList = func(list []ast.Stmt) []ast.Stmt {
		var out []ast.Stmt
		for _, st := range list {
			for _, u := range headerUses(st) {
				site := fmt.Sprintf("%s:%d", curFunc, w.fset.Position(st.Pos()).Line)
				out = append(out, accessCall(ast.NewIdent("nil"), loc(u.id), u.write, site))
				w.usedV = true
				count++
			}
			doStmt(st)
			out = append(out, st)
		}
		return out
	}
	doFuncLits := func(n ast.Node) {
		ast.Inspect(n, func(m ast.Node) bool {
			if fl, ok := m.(*ast.FuncLit); ok {
				doStmt(fl.Body)
				return false
			}
			return true
		})
	}
	doStmt = func(st ast.Stmt) {
		switch x := st.(type) {
		case *ast.BlockStmt:
			x.List = doList(x.List)
		case *ast.IfStmt:
			doStmt(x.Body)
			if x.Else != nil {
				doStmt(x.Else)
			}
		case *ast.ForStmt:
			doStmt(x.Body)
		case *ast.RangeStmt:
			doStmt(x.Body)
		case *ast.LabeledStmt:
			doStmt(x.Stmt)
		case *ast.SwitchStmt:
			for _, cc := range x.Body.List {
				c := cc.(*ast.CaseClause)
				c.Body = doList(c.Body)
			}
		case *ast.TypeSwitchStmt:
			for _, cc := range x.Body.List {
				c := cc.(*ast.CaseClause)
				c.Body = doList(c.Body)
			}
		case *ast.SelectStmt:
			for _, cc := range x.Body.List {
				c := cc.(*ast.CommClause)
				c.Body = doList(c.Body)
			}
		case *ast.ExprStmt, *ast.AssignStmt, *ast.ReturnStmt, *ast.DeferStmt, *ast.GoStmt, *ast.DeclStmt:
			doFuncLits(x)
		}
	}
	for _, d := range w.f.Decls {
		fd, ok := d.(*ast.FuncDecl)
		if !ok || fd.Body == nil || fd.Name.Name == "init" {
			continue
		}
		curFunc = fd.Name.Name
		doStmt(fd.Body)
	}
	return count
}

// discoverSyncFiles lists the files of runtime/ and lib/ (non-test, not
// already listed, not explicitly allowed to keep their primitives) that
// contain a go statement, a channel type or a sync.* selector.
func discoverSyncFiles(o Options) []string {
	known := map[string]bool{}
	for _, rel := range o.SyncFiles {
		known[rel] = true
	}
	for _, rel := range o.AllowSync {
		known[rel] = true
	}
	var out []string
	for _, top := range []string{"runtime", "lib"} {
		filepath.Walk(filepath.Join(o.Repo, top), func(p string, info os.FileInfo, err error) error {
			if err != nil || info.IsDir() || !strings.HasSuffix(p, ".go") || strings.HasSuffix(p, "_test.go") {
				return nil
			}
			rel, _ := filepath.Rel(o.Repo, p)
			if known[rel] || strings.HasPrefix(rel, "lib/golib") {
				return nil
			}
			fset := token.NewFileSet()
			f, e := parser.ParseFile(fset, p, nil, 0)
			if e != nil {
				return nil
			}
			uses := false
			ast.Inspect(f, func(n ast.Node) bool {
				switch x := n.(type) {
				case *ast.GoStmt, *ast.ChanType, *ast.SelectStmt:
					uses = true
				case *ast.SelectorExpr:
					if id, ok := x.X.(*ast.Ident); ok && (id.Name == "sync" || id.Name == "atomic") && id.Obj == nil {
						uses = true
					}
				}
				return !uses
			})
			if uses {
				out = append(out, rel)
			}
			return nil
		})
	}
	return out
}
