// Package refstr19 is the reference model for the non-pattern functions of the
// Lua 5.4 string library (manual §6.4), on Go strings used as byte strings.
// It imports nothing from golua.  Everything is written as directly from the
// manual's sentences as possible; the sentence is quoted next to the code.
package refstr19

import (
	"math/big"
	"unicode/utf8"
)

// Translate applies "Indices are allowed to be negative and are interpreted
// as indexing backwards, from the end of the string. Thus, the last character
// is at position -1, and so on." (§6.4).  The result can be <= 0 (position
// before the start) and is computed without overflow: p < 0 and l >= 0.
func Translate(l int64, p int64) int64 {
	if p < 0 {
		return l + 1 + p
	}
	return p
}

// span implements the correction rules of string.sub: "If, after the
// translation of negative indices, i is less than 1, it is corrected to 1. If
// j is greater than the string length, it is corrected to that length. If,
// after these corrections, i is greater than j, the function returns the
// empty string."  It returns the 1-based inclusive range, ok=false if empty.
func span(l, i, j int64) (int64, int64, bool) {
	i = Translate(l, i)
	j = Translate(l, j)
	if i < 1 {
		i = 1
	}
	if j > l {
		j = l
	}
	if i > j {
		return 0, 0, false
	}
	return i, j, true
}

// Sub is string.sub(s, i, j).
func Sub(s string, i, j int64) string {
	a, b, ok := span(int64(len(s)), i, j)
	if !ok {
		return ""
	}
	return s[a-1 : b]
}

// Byte is string.byte(s, i, j): "Returns the internal numeric codes of the
// characters s[i], s[i+1], ..., s[j]. ... These indices are corrected
// following the same rules of function string.sub."
func Byte(s string, i, j int64) []int64 {
	a, b, ok := span(int64(len(s)), i, j)
	if !ok {
		return nil
	}
	var out []int64
	for k := a; k <= b; k++ {
		out = append(out, int64(s[k-1]))
	}
	return out
}

// Char is string.char(...): "Receives zero or more integers. Returns a string
// with length equal to the number of arguments, in which each character has
// the internal numeric code equal to its corresponding argument."  A value
// that is not the code of a character (outside 0..255) cannot be honoured:
// ok=false (an error must be raised).
func Char(vals []int64) (string, bool) {
	b := make([]byte, 0, len(vals))
	for _, v := range vals {
		if v < 0 || v > 255 {
			return "", false
		}
		b = append(b, byte(v))
	}
	return string(b), true
}

// RepLen is the length of string.rep(s, n, sep) as an exact integer.
func RepLen(s string, n int64, sep string) *big.Int {
	if n <= 0 {
		return new(big.Int)
	}
	N := big.NewInt(n)
	a := new(big.Int).Mul(N, big.NewInt(int64(len(s))))
	b := new(big.Int).Mul(new(big.Int).Sub(N, big.NewInt(1)), big.NewInt(int64(len(sep))))
	return a.Add(a, b)
}

// Rep is string.rep(s, n, sep): "Returns a string that is the concatenation
// of n copies of the string s separated by the string sep. The default value
// for sep is the empty string (that is, no separator). Returns the empty
// string if n is not positive."  The caller must make sure RepLen is small.
func Rep(s string, n int64, sep string) string {
	if n <= 0 {
		return ""
	}
	out := ""
	for k := int64(0); k < n; k++ {
		if k > 0 {
			out += sep
		}
		out += s
	}
	return out
}

// Reverse is string.reverse.
func Reverse(s string) string {
	b := make([]byte, len(s))
	for k := 0; k < len(s); k++ {
		b[len(s)-1-k] = s[k]
	}
	return string(b)
}

// Upper is string.upper in the C locale: "returns a copy of this string with
// all lowercase letters changed to uppercase. All other characters are left
// unchanged."  In the C locale the lowercase letters are exactly a..z.
func Upper(s string) string {
	b := []byte(s)
	for k, c := range b {
		if c >= 'a' && c <= 'z' {
			b[k] = c - 'a' + 'A'
		}
	}
	return string(b)
}

// Lower is string.lower in the C locale.
func Lower(s string) string {
	b := []byte(s)
	for k, c := range b {
		if c >= 'A' && c <= 'Z' {
			b[k] = c - 'A' + 'a'
		}
	}
	return string(b)
}

// CaseDetermined reports whether the manual determines upper(s) and lower(s)
// in golua: "The definition of what an uppercase letter is depends on the
// current locale."  golua has no locale setting other than "C", but its
// implementation treats strings as UTF-8 text, so for a well-formed multi-byte
// UTF-8 sequence (a non-ASCII letter in a UTF-8 locale) either reading of
// "current locale" is defensible and the case is left open.  ASCII bytes are
// letters or non-letters identically in both readings, and a byte >= 0x80
// that is not part of a well-formed UTF-8 sequence is not a letter of any
// locale: for strings made of these only, the C-locale result is required
// ("All other characters are left unchanged").
func CaseDetermined(s string) bool {
	for i := 0; i < len(s); {
		if s[i] < 0x80 {
			i++
			continue
		}
		r, n := utf8.DecodeRuneInString(s[i:])
		if r != utf8.RuneError || n > 1 {
			return false // a well-formed multi-byte sequence
		}
		i++
	}
	return true
}

// Len is string.len: "Embedded zeros are counted".
func Len(s string) int64 { return int64(len(s)) }

// Find is string.find(s, needle, init, true): the first occurrence of needle
// in s that starts at or after position init; "returns the indices of s where
// this occurrence starts and ends".  init "can be negative" (translated as
// above); a translated init below 1 means the search starts at 1.  If init is
// beyond len+1 there is no position of s to start from: fail.  The empty
// string occurs at every position 1..len+1, spanning (p, p-1).
func Find(s, needle string, init int64) (start, end int64, found bool) {
	l := int64(len(s))
	p := Translate(l, init)
	if p < 1 {
		p = 1
	}
	if p > l+1 {
		return 0, 0, false
	}
	n := int64(len(needle))
	for q := p; q+n-1 <= l; q++ {
		if s[q-1:q-1+n] == needle {
			return q, q + n - 1, true
		}
	}
	return 0, 0, false
}
