package progfam

import (
	"fmt"
	"strings"

	"verif/engine/prog"
)

// F6 — multiple assignment.  Ordered selections of 2 or 3 distinct targets
// from
//
//	a (local)  u (local, also captured by a closure)  g (global)
//	t[i]  t.x  t[j]  i  t
//
// x right-hand side pattern {rotation of the targets' old values, constants
// with the manual's `i+1` for target i, a fresh table for target t}
// x expression count -1/0/+1 x multi-value tail {none, f0(), f1(), f2(), ...,
// (f2())} x {chunk level, inside a function (all variables are upvalues)}.
// The manual's rule under test: all expressions (including the table and key
// sub-expressions of the targets) are evaluated before any assignment.
var f6Targets = []string{"a", "u", "g", "t[i]", "t.x", "t[j]", "i", "t"}
var f6Pattern = []string{"rot", "const"}
var f6Tail = []string{"none", "f0", "f1", "f2", "dots", "paren2"}

func f6(th bool) []Fam {
	nt := len(f6Targets)
	return []Fam{{
		Name: "F6-multiple-assignment",
		Size: prod(nt, nt, nt+1, len(f6Pattern), 3, len(f6Tail), 2),
		At: func(i uint64) *prog.Prog {
			d := dec{i}
			t1, t2, t3 := d.n(nt), d.n(nt), d.n(nt+1)
			pat := d.n(len(f6Pattern))
			adj := d.n(3) - 1
			tail := d.n(len(f6Tail))
			inFn := d.n(2) == 1
			tg := []int{t1, t2}
			if t3 < nt {
				tg = append(tg, t3)
			}
			for x := range tg {
				for y := 0; y < x; y++ {
					if tg[x] == tg[y] {
						return nil
					}
				}
			}
			return f6Build(tg, pat, adj, tail, inFn)
		},
	}}
}

func (b g) f6Target(k int) prog.Expr {
	switch f6Targets[k] {
	case "t[i]":
		return b.Index(b.n("t"), b.n("i"))
	case "t.x":
		return b.Dot(b.n("t"), "x")
	case "t[j]":
		return b.Index(b.n("t"), b.n("j"))
	}
	return b.n(f6Targets[k])
}

func f6Build(tg []int, pat, adj, tail int, inFn bool) *prog.Prog {
	b := newG()
	var body []prog.Stmt
	add := func(s ...prog.Stmt) { body = append(body, s...) }
	add(b.Local([]string{"a", "u", "i", "j"}, b.s("A"), b.s("U"), b.i(1), b.i(2)))
	add(b.Set("g", b.s("G")))
	add(b.Local1("t", b.Table(prog.Field{Val: b.s("t1")}, prog.Field{Val: b.s("t2")}, prog.Field{Val: b.s("t3")},
		prog.Field{Nam: "x", Val: b.s("tx")})))
	add(b.Local1("t0", b.n("t")))
	add(b.LocalFunc("getu", b.Func(nil, false, b.Return(b.n("u")))))
	for k := 0; k < 3; k++ {
		var rets []prog.Expr
		for r := 0; r < k; r++ {
			rets = append(rets, b.i(71+r))
		}
		add(b.LocalFunc(fmt.Sprintf("f%d", k), b.Func(nil, false, b.Emit(b.s(fmt.Sprintf("f%d", k))), b.Return(rets...))))
	}
	n := len(tg)
	var targets []prog.Expr
	for _, k := range tg {
		targets = append(targets, b.f6Target(k))
	}
	var rhs []prog.Expr
	for k := 0; k < n+adj; k++ {
		switch {
		case k >= n:
			rhs = append(rhs, b.i(99))
		case f6Pattern[pat] == "rot":
			rhs = append(rhs, b.f6Target(tg[(k+1)%n]))
		default:
			switch f6Targets[tg[k]] {
			case "i":
				rhs = append(rhs, b.Bin("+", b.n("i"), b.i(1)))
			case "t":
				rhs = append(rhs, b.List(b.s("n1")))
			default:
				rhs = append(rhs, b.i(10*(k+1)))
			}
		}
	}
	switch f6Tail[tail] {
	case "f0", "f1", "f2":
		rhs = append(rhs, b.CallN(f6Tail[tail]))
	case "dots":
		rhs = append(rhs, b.Vararg())
	case "paren2":
		rhs = append(rhs, b.Paren(b.CallN("f2")))
	}
	if len(rhs) == 0 {
		return nil
	}
	assign := b.Assign(targets, rhs...)
	if inFn {
		add(b.LocalFunc("doit", b.Func(nil, true, assign)))
		add(b.CallS(b.CallN("doit", b.Vararg())))
	} else {
		add(assign)
	}
	add(b.Emit(b.s("s"), b.n("a"), b.n("u"), b.CallN("getu"), b.n("g"), b.n("i"), b.n("j"), b.Bin("==", b.n("t"), b.n("t0"))))
	add(b.Emit(b.s("t0"), b.Index(b.n("t0"), b.i(1)), b.Index(b.n("t0"), b.i(2)), b.Index(b.n("t0"), b.i(3)),
		b.Index(b.n("t0"), b.i(4)), b.Dot(b.n("t0"), "x")))
	add(b.Emit(b.s("t"), b.CallN("pcall", b.fn(nil, false,
		b.Return(b.Index(b.n("t"), b.i(1)), b.Index(b.n("t"), b.i(2)), b.Index(b.n("t"), b.i(3)), b.Dot(b.n("t"), "x"))))))
	p := b.ProgOf(body)
	p.Args = []interface{}{int64(41), int64(42)}
	names := make([]string, n)
	for k, t := range tg {
		names[k] = f6Targets[t]
	}
	// excess: what the expressions beyond the number of targets are (they must
	// still be evaluated, §3.3.3)
	excess := "none"
	if len(rhs) > n {
		excess = "pure"
		switch f6Tail[tail] {
		case "f0", "f1", "f2", "paren2":
			excess = "call"
		}
	}
	p.Key = fmt.Sprintf("targets=%s rhs=%s adj=%+d tail=%s infunc=%v excess=%s", strings.Join(names, ","), f6Pattern[pat], adj, f6Tail[tail], inFn, excess)
	return p
}
