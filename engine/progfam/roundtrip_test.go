package progfam

import (
	"strings"
	"testing"

	"verif/engine/prog"
	"verif/engine/reflua"
)

// Every family program rendered in any style and parsed back must render to
// the same plain text and have the same reference behaviour: this keeps
// prog.Parse, prog.Render and reflua consistent with each other (a sample of
// each family; the corpus completely).
func TestRenderParseRoundTrip(t *testing.T) {
	for _, f := range All("quick") {
		step := f.Size/200 + 1
		for i := uint64(0); i < f.Size; i += step {
			p := f.At(i)
			if p == nil {
				continue
			}
			want, _ := prog.Render(p, prog.Plain)
			ref := reflua.Run(p, p.Args)
			for st := prog.Plain; st < prog.NStyles; st++ {
				src, _ := prog.Render(p, st)
				q, err := prog.Parse(src)
				if err != nil {
					t.Fatalf("%s:%d style %s: %v\n%s", f.Name, i, st, err, src)
				}
				got, _ := prog.Render(q, prog.Plain)
				if st != prog.AltLit && st != prog.Parens && !strings.Contains(want, "(-") && got != want {
					t.Fatalf("%s:%d style %s: round trip differs\n--- want\n%s\n--- got\n%s", f.Name, i, st, want, got)
				}
				r2 := reflua.Run(q, p.Args)
				if r2.Status != ref.Status || r2.Unspec != ref.Unspec || len(r2.Trace) != len(ref.Trace) {
					t.Fatalf("%s:%d style %s: reference behaviour differs after round trip", f.Name, i, st)
				}
				for k := range ref.Trace {
					if ref.Trace[k] != r2.Trace[k] && ref.Unspec == "" {
						// node ids differ between the two ASTs: positions are spelled with node ids
						if !sameModuloNodes(ref.Trace[k], r2.Trace[k]) {
							t.Fatalf("%s:%d style %s: trace[%d] %s vs %s", f.Name, i, st, k, ref.Trace[k], r2.Trace[k])
						}
					}
				}
			}
		}
	}
}

func sameModuloNodes(a, b string) bool {
	strip := func(s string) string {
		out := []byte{}
		for i := 0; i < len(s); i++ {
			if s[i] == '@' {
				out = append(out, '@')
				for i+1 < len(s) && s[i+1] >= '0' && s[i+1] <= '9' {
					i++
				}
				continue
			}
			out = append(out, s[i])
		}
		return string(out)
	}
	return strip(a) == strip(b)
}
