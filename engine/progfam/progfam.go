// Package progfam holds the index-addressable program families of check C01
// (DESIGN §4): every family is a finite product of small domains, ordered
// simplest first, whose elements are Lua programs (package prog ASTs) that the
// Lua 5.4 manual fully determines.  Other checks (C10, C11, C13, C14) iterate
// the same corpus through All.
//
// Generator discipline (DESIGN §3): programs never observe the evaluation
// order of unsequenced operands (at most one effectful sub-expression among
// siblings), never the order of pairs, never # of a table with holes, never a
// float->string conversion, never an address, never __gc.  The reference
// interpreter (reflua) additionally raises Unspec for anything the manual
// leaves open, so a slip of the generator excludes the case instead of
// producing a false alarm.
package progfam

import (
	"fmt"

	"verif/engine/prog"
)

// Fam is one family.  At(i) for 0 <= i < Size returns the i-th program, or
// nil when index i does not denote a canonical program of the family (token
// strings that do not nest properly, duplicates of a shorter spelling, ...);
// such indices are counted as skipped, not evaluated.
type Fam struct {
	Name string
	Size uint64
	At   func(i uint64) *prog.Prog
}

// All returns the families of a tier ("quick" or "thorough"); thorough is the
// same families with larger bounds.
func All(tier string) []Fam {
	th := tier == "thorough"
	var out []Fam
	out = append(out, f1(th)...)
	out = append(out, f2(th)...)
	out = append(out, f3(th)...)
	out = append(out, f4(th)...)
	out = append(out, f5(th)...)
	out = append(out, f6(th)...)
	out = append(out, f7(th)...)
	out = append(out, f8(th)...)
	out = append(out, f9(th)...)
	return out
}

// ---------------------------------------------------------------- helpers

// dec decodes a mixed-radix index, least significant digit first.
type dec struct{ i uint64 }

func (d *dec) n(k int) int {
	r := int(d.i % uint64(k))
	d.i /= uint64(k)
	return r
}

func prod(ks ...int) uint64 {
	p := uint64(1)
	for _, k := range ks {
		p *= uint64(k)
	}
	return p
}

func pow(b, e int) uint64 {
	p := uint64(1)
	for ; e > 0; e-- {
		p *= uint64(b)
	}
	return p
}

// seqIndex maps an index over "all token strings of length 1..maxLen over an
// alphabet of size a" (shorter first) to (length, digits).
func seqIndex(i uint64, a, maxLen int) []int {
	for l := 1; l <= maxLen; l++ {
		if n := pow(a, l); i < n {
			out := make([]int, l)
			for k := l - 1; k >= 0; k-- { // most significant digit first
				out[k] = int(i % uint64(a))
				i /= uint64(a)
			}
			return out
		} else {
			i -= n
		}
	}
	return nil
}

func seqSize(a, maxLen int) uint64 {
	var s uint64
	for l := 1; l <= maxLen; l++ {
		s += pow(a, l)
	}
	return s
}

// g is a builder with a few shorthands used by all families.
type g struct{ *prog.B }

func newG() g { return g{prog.NewB()} }

func (b g) n(name string) prog.Expr { return b.Name(name) }
func (b g) i(v int) prog.Expr       { return b.Int(int64(v)) }
func (b g) s(v string) prog.Expr    { return b.Str(v) }

// fn builds a function expression.
func (b g) fn(params []string, vararg bool, body ...prog.Stmt) prog.Expr {
	return b.Func(params, vararg, body...)
}

// push is  fs[#fs+1] = e
func (b g) push(list string, e prog.Expr) prog.Stmt {
	return b.Assign([]prog.Expr{b.Index(b.n(list), b.Bin("+", b.Un("#", b.n(list)), b.i(1)))}, e)
}

// callAll is  for k = 1, #fs do emit(k, fs[k]()) end
func (b g) callAll(list string) prog.Stmt {
	return b.NumFor("k", b.i(1), b.Un("#", b.n(list)), nil,
		b.Emit(b.n("k"), b.Call(b.Index(b.n(list), b.n("k")))))
}

// orZero is (v or 0)
func (b g) orZero(v string) prog.Expr { return b.Paren(b.Bin("or", b.n(v), b.i(0))) }

func keyOf(name string, digits ...int) string {
	s := name
	for _, d := range digits {
		s += fmt.Sprintf(" %d", d)
	}
	return s
}

// blockStack assembles nested blocks from a linear token stream.
type blockStack struct {
	frames []*bframe
}

type bframe struct {
	kind  string
	body  []prog.Stmt
	then  []prog.Stmt // IF: statements of the then-part once ELSE was seen
	els   bool
	close func(f *bframe) []prog.Stmt // statements replacing the frame in its parent
}

func newBlockStack() *blockStack { return &blockStack{frames: []*bframe{{kind: "top"}}} }

func (s *blockStack) top() *bframe        { return s.frames[len(s.frames)-1] }
func (s *blockStack) add(st ...prog.Stmt) { t := s.top(); t.body = append(t.body, st...) }
func (s *blockStack) depth() int          { return len(s.frames) - 1 }
func (s *blockStack) open(kind string, close func(f *bframe) []prog.Stmt) {
	s.frames = append(s.frames, &bframe{kind: kind, close: close})
}
func (s *blockStack) closeTop() bool {
	if len(s.frames) == 1 {
		return false
	}
	f := s.top()
	s.frames = s.frames[:len(s.frames)-1]
	s.add(f.close(f)...)
	return true
}
func (s *blockStack) closeAll() []prog.Stmt {
	for s.closeTop() {
	}
	return s.frames[0].body
}

// inLoop reports whether a break here would be inside a loop of the current function.
func (s *blockStack) inLoop() bool {
	for _, f := range s.frames {
		switch f.kind {
		case "for", "while", "repeat":
			return true
		}
	}
	return false
}
