package progfam

import (
	"fmt"

	"verif/engine/prog"
)

// F8 — deep expressions and deep call nesting.
//
//	F8-trees:  every expression tree of depth <= 3 over
//	           {local, constant, e+e, add(e,e), id(e) [, tt[e]]}
//	F8-spines: 15 chain shapes (nested operators, nested calls, wide argument
//	           lists and constructors, concat / and-or chains, nested indexing,
//	           nested immediately-called function literals, ...) of length
//	           2..16 x {locals, constants, calls} as elements
//	F8-recursion: recursion of depth 1..14 (more activations than golua's
//	           pool of 10 register sets), run twice so that recycled register
//	           sets are observed (locals without initialiser must be nil)
//
// Functions called inside one expression never emit, so the evaluation order
// of unsequenced operands is not observed.
func f8(th bool) []Fam {
	// thorough: leaves {local, constant}, unary nodes {id(e), tt[e]};
	// quick: one leaf kind (local / constant alternate by position), id(e) only
	nb, nu, nl := 2, 1, 1
	if th {
		nu, nl = 2, 2
	}
	T := []uint64{uint64(nl), 0, 0, 0}
	for d := 1; d <= 3; d++ {
		T[d] = uint64(nl) + uint64(nb)*T[d-1]*T[d-1] + uint64(nu)*T[d-1]
	}
	return []Fam{
		{
			Name: "F8-trees",
			Size: T[3],
			At: func(i uint64) *prog.Prog {
				b := newG()
				leaf := 0
				digits := fmt.Sprint(i)
				e := f8Tree(b, T, 3, i, nb, nl, &leaf)
				return f8Wrap(b, e, "tree="+digits)
			},
		},
		{
			Name: "F8-spines",
			Size: prod(15, len(f8Spines), 3),
			At: func(i uint64) *prog.Prog {
				d := dec{i}
				L := d.n(15) + 2
				sp := d.n(len(f8Spines))
				el := d.n(3)
				b := newG()
				k := 0
				elem := func() prog.Expr {
					k++
					x := fmt.Sprintf("x%d", (k-1)%9+1)
					switch el {
					case 1:
						return b.i(k)
					case 2:
						return b.CallN("id", b.n(x))
					}
					return b.n(x)
				}
				e := f8Spines[sp].mk(b, L, elem)
				return f8Wrap(b, e, fmt.Sprintf("spine=%s len=%d elem=%d", f8Spines[sp].name, L, el))
			},
		},
		{
			Name: "F8-recursion",
			Size: prod(14, len(f8Rec)),
			At: func(i uint64) *prog.Prog {
				d := dec{i}
				depth := d.n(14) + 1
				v := d.n(len(f8Rec))
				b := newG()
				body := f8Rec[v].mk(b, depth)
				p := b.ProgOf(body)
				p.Key = fmt.Sprintf("rec=%s depth=%d", f8Rec[v].name, depth)
				return p
			},
		},
	}
}

func f8Prelude(b g) []prog.Stmt {
	names := make([]string, 9)
	vals := make([]prog.Expr, 9)
	for k := range names {
		names[k] = fmt.Sprintf("x%d", k+1)
		vals[k] = b.i(k + 1)
	}
	return []prog.Stmt{
		b.Local(names, vals...),
		b.LocalFunc("id", b.Func([]string{"a"}, false, b.Return(b.n("a")))),
		b.LocalFunc("add", b.Func([]string{"a", "b"}, false, b.Return(b.Bin("+", b.n("a"), b.n("b"))))),
		b.LocalFunc("two", b.Func([]string{"a"}, false, b.Return(b.n("a"), b.Bin("+", b.n("a"), b.i(1))))),
		b.Local1("tt", b.CallN("setmetatable", b.Table(), b.Table(prog.Field{Nam: "__index",
			Val: b.fn([]string{"t", "k"}, false, b.Return(b.Bin("+", b.n("k"), b.i(1))))}))),
		b.Local1("o", b.Table(prog.Field{Nam: "id", Val: b.fn([]string{"self", "a"}, false, b.Return(b.n("a")))})),
	}
}

func f8Wrap(b g, e prog.Expr, key string) *prog.Prog {
	body := f8Prelude(b)
	body = append(body, b.Emit(b.s("v"), e), b.Emit(b.s("end")))
	p := b.ProgOf(body)
	p.Key = key
	return p
}

// f8Tree unranks tree number i among the trees of depth <= d.
func f8Tree(b g, T []uint64, d int, i uint64, nb, nl int, leaf *int) prog.Expr {
	if i < uint64(nl) || d == 0 {
		*leaf++
		kind := i
		if nl == 1 {
			kind = uint64(*leaf) % 2
		}
		if kind == 0 {
			return b.n(fmt.Sprintf("x%d", (*leaf-1)%9+1))
		}
		return b.i(10 * *leaf)
	}
	i -= uint64(nl)
	t := T[d-1]
	if i < uint64(nb)*t*t {
		op := i / (t * t)
		rest := i % (t * t)
		l := f8Tree(b, T, d-1, rest/t, nb, nl, leaf)
		r := f8Tree(b, T, d-1, rest%t, nb, nl, leaf)
		if op == 0 {
			return b.Bin("+", l, r)
		}
		return b.CallN("add", l, r)
	}
	i -= uint64(nb) * t * t
	u := i / t
	c := f8Tree(b, T, d-1, i%t, nb, nl, leaf)
	if u == 0 {
		return b.CallN("id", c)
	}
	return b.Index(b.n("tt"), c)
}

var f8Spines = []struct {
	name string
	mk   func(b g, L int, elem func() prog.Expr) prog.Expr
}{
	{"right-add", func(b g, L int, elem func() prog.Expr) prog.Expr {
		es := f8Elems(L, elem)
		e := es[L-1]
		for k := L - 2; k >= 0; k-- {
			e = b.Bin("+", es[k], e)
		}
		return e
	}},
	{"left-add", func(b g, L int, elem func() prog.Expr) prog.Expr {
		es := f8Elems(L, elem)
		e := es[0]
		for k := 1; k < L; k++ {
			e = b.Bin("-", e, es[k])
		}
		return e
	}},
	{"right-call", func(b g, L int, elem func() prog.Expr) prog.Expr {
		es := f8Elems(L, elem)
		e := es[L-1]
		for k := L - 2; k >= 0; k-- {
			e = b.CallN("add", es[k], e)
		}
		return e
	}},
	{"left-call", func(b g, L int, elem func() prog.Expr) prog.Expr {
		es := f8Elems(L, elem)
		e := es[0]
		for k := 1; k < L; k++ {
			e = b.CallN("add", e, es[k])
		}
		return e
	}},
	{"wide-args", func(b g, L int, elem func() prog.Expr) prog.Expr {
		es := f8Elems(L, elem)
		for k := range es {
			es[k] = b.Bin("+", b.Bin("*", es[k], b.i(2)), b.i(k))
		}
		return b.CallN("select", append([]prog.Expr{b.i(-L)}, es...)...)
	}},
	{"wide-table", func(b g, L int, elem func() prog.Expr) prog.Expr {
		es := f8Elems(L, elem)
		// #{e1, ..., eL} + {e1, ..., eL}[L]: a proper sequence
		return b.Un("#", b.List(es...))
	}},
	{"concat", func(b g, L int, elem func() prog.Expr) prog.Expr {
		es := f8Elems(L, elem)
		e := es[L-1]
		for k := L - 2; k >= 0; k-- {
			e = b.Bin("..", es[k], e)
		}
		return e
	}},
	{"and-or", func(b g, L int, elem func() prog.Expr) prog.Expr {
		es := f8Elems(L, elem)
		e := es[0]
		for k := 1; k < L; k++ {
			if k%2 == 1 {
				e = b.Bin("and", e, b.Bin("<", es[k], b.i(0)))
			} else {
				e = b.Bin("or", e, es[k])
			}
		}
		return e
	}},
	{"compare-sum", func(b g, L int, elem func() prog.Expr) prog.Expr {
		es := f8Elems(L+1, elem)
		var e prog.Expr
		for k := 0; k < L; k++ {
			t := b.Paren(b.Bin("or", b.Bin("and", b.Bin("<", es[k], b.Bin("+", es[k+1], b.i(k%2))), b.i(1)), b.i(0)))
			if e == nil {
				e = t
			} else {
				e = b.Bin("+", e, t)
			}
		}
		return e
	}},
	{"nested-index", func(b g, L int, elem func() prog.Expr) prog.Expr {
		e := elem()
		for k := 0; k < L; k++ {
			e = b.Index(b.n("tt"), e)
		}
		return e
	}},
	{"nested-method", func(b g, L int, elem func() prog.Expr) prog.Expr {
		e := elem()
		for k := 0; k < L; k++ {
			e = b.Method(b.n("o"), "id", b.Bin("+", e, b.i(1)))
		}
		return e
	}},
	{"nested-lambda", func(b g, L int, elem func() prog.Expr) prog.Expr {
		// (function(p1) return p1 + (function(p2) return p1 + p2 + (...)(e3) end)(e2) end)(e1)
		es := f8Elems(L, elem)
		var build func(k int) prog.Expr
		build = func(k int) prog.Expr {
			p := fmt.Sprintf("p%d", k)
			var sum prog.Expr = b.n(p)
			if k > 1 {
				sum = b.Bin("+", b.n(fmt.Sprintf("p%d", k-1)), sum)
			}
			if k < L {
				sum = b.Bin("+", sum, build(k+1))
			}
			return b.Call(b.Paren(b.fn([]string{p}, false, b.Return(sum))), es[k-1])
		}
		return build(1)
	}},
	{"nested-lambda-far", func(b g, L int, elem func() prog.Expr) prog.Expr {
		// the innermost function reads the parameter of the outermost one: an
		// upvalue passed down through L-1 intermediate closures that do not use it
		es := f8Elems(L, elem)
		var build func(k int) prog.Expr
		build = func(k int) prog.Expr {
			p := fmt.Sprintf("p%d", k)
			var ret prog.Expr
			if k < L {
				ret = build(k + 1)
			} else {
				ret = b.Bin("+", b.Bin("*", b.n("p1"), b.i(1000)), b.n(p))
			}
			return b.Call(b.Paren(b.fn([]string{p}, false, b.Return(ret))), es[k-1])
		}
		return build(1)
	}},
	{"long-table", func(b g, L int, elem func() prog.Expr) prog.Expr {
		// ({e1, ..., e_4L})[4L] + #{...}: constructors longer than one batch
		es := f8Elems(4*L, elem)
		return b.Bin("+", b.Index(b.Paren(b.List(es...)), b.i(4*L)), b.Un("#", b.List(f8Elems(4*L, elem)...)))
	}},
	{"mixed", func(b g, L int, elem func() prog.Expr) prog.Expr {
		es := f8Elems(L, elem)
		e := es[L-1]
		for k := L - 2; k >= 0; k-- {
			switch k % 3 {
			case 0:
				e = b.CallN("add", es[k], e)
			case 1:
				e = b.Bin("+", es[k], b.Paren(b.CallN("two", e)))
			default:
				e = b.Bin("*", es[k], b.Index(b.n("tt"), e))
			}
		}
		return e
	}},
}

func f8Elems(L int, elem func() prog.Expr) []prog.Expr {
	es := make([]prog.Expr, L)
	for k := range es {
		es[k] = elem()
	}
	return es
}

var f8Rec = []struct {
	name string
	mk   func(b g, depth int) []prog.Stmt
}{
	{"uninit-locals", func(b g, depth int) []prog.Stmt {
		// local function rec(n) local a, b, c  if n > 0 then a = n  b = rec(n - 1) end  emit(n, a, b, c)  return n end
		return []prog.Stmt{
			b.LocalFunc("rec", b.Func([]string{"n"}, false,
				b.Local([]string{"a", "b", "c"}),
				b.If(b.Bin(">", b.n("n"), b.i(0)), []prog.Stmt{
					b.Set("a", b.n("n")),
					b.Set("b", b.CallN("rec", b.Bin("-", b.n("n"), b.i(1)))),
				}, nil),
				b.Emit(b.n("n"), b.n("a"), b.n("b"), b.n("c")),
				b.Return(b.n("n")))),
			b.Emit(b.s("r1"), b.CallN("rec", b.i(depth))),
			b.Emit(b.s("r2"), b.CallN("rec", b.i(depth))),
		}
	}},
	{"vararg-tail", func(b g, depth int) []prog.Stmt {
		// local function rec(n, ...) if n == 0 then return select('#', ...), ... end return rec(n - 1, n, ...) end
		return []prog.Stmt{
			b.LocalFunc("rec", b.Func([]string{"n"}, true,
				b.If(b.Bin("==", b.n("n"), b.i(0)), []prog.Stmt{b.Return(b.CallN("select", b.s("#"), b.Vararg()), b.Vararg())}, nil),
				b.Return(b.CallN("rec", b.Bin("-", b.n("n"), b.i(1)), b.n("n"), b.Vararg())))),
			b.Emit(b.s("r1"), b.CallN("rec", b.i(depth))),
			b.Emit(b.s("r2"), b.CallN("rec", b.i(depth), b.s("x"))),
		}
	}},
	{"multi-return", func(b g, depth int) []prog.Stmt {
		// local function rec(n) if n == 0 then return end return n, rec(n - 1) end
		return []prog.Stmt{
			b.LocalFunc("rec", b.Func([]string{"n"}, false,
				b.If(b.Bin("==", b.n("n"), b.i(0)), []prog.Stmt{b.Return()}, nil),
				b.Return(b.n("n"), b.CallN("rec", b.Bin("-", b.n("n"), b.i(1)))))),
			b.Emit(b.s("r1"), b.CallN("rec", b.i(depth))),
			b.Emit(b.s("r2"), b.Paren(b.CallN("rec", b.i(depth))), b.CallN("select", b.s("#"), b.CallN("rec", b.i(depth)))),
		}
	}},
	{"closures-per-level", func(b g, depth int) []prog.Stmt {
		// every level creates a closure over its own local and parameter
		return []prog.Stmt{
			b.Set("fs", b.List()),
			b.LocalFunc("rec", b.Func([]string{"n"}, false,
				b.Local1("mine", b.Bin("*", b.n("n"), b.i(10))),
				b.push("fs", b.fn(nil, false, b.Set("mine", b.Bin("+", b.n("mine"), b.i(1))), b.Return(b.n("n"), b.n("mine")))),
				b.If(b.Bin(">", b.n("n"), b.i(0)), []prog.Stmt{b.CallS(b.CallN("rec", b.Bin("-", b.n("n"), b.i(1))))}, nil),
				b.Local([]string{"late"}),
				b.Emit(b.s("lvl"), b.n("n"), b.n("mine"), b.n("late")))),
			b.CallS(b.CallN("rec", b.i(depth))),
			b.callAll("fs"),
			b.CallS(b.CallN("rec", b.i(1))),
			b.callAll("fs"),
		}
	}},
	{"through-pcall", func(b g, depth int) []prog.Stmt {
		// local function rec(n) local a if n == 0 then error({}) end a = n  local ok, e = pcall(rec, n - 1) emit(n, a, ok) error(e) end
		return []prog.Stmt{
			b.Local1("errv", b.Table()),
			b.LocalFunc("rec", b.Func([]string{"n"}, false,
				b.Local([]string{"a"}),
				b.If(b.Bin("==", b.n("n"), b.i(0)), []prog.Stmt{b.CallS(b.CallN("error", b.n("errv")))}, nil),
				b.Set("a", b.n("n")),
				b.Local([]string{"ok", "e"}, b.CallN("pcall", b.n("rec"), b.Bin("-", b.n("n"), b.i(1)))),
				b.Emit(b.n("n"), b.n("a"), b.n("ok"), b.Bin("==", b.n("e"), b.n("errv"))),
				b.CallS(b.CallN("error", b.n("e"))))),
			b.Emit(b.s("r1"), b.CallN("pcall", b.n("rec"), b.i(depth))),
			b.Emit(b.s("r2"), b.CallN("pcall", b.n("rec"), b.i(depth))),
		}
	}},
	{"through-index", func(b g, depth int) []prog.Stmt {
		// t[k] computed by an __index function that indexes t again
		return []prog.Stmt{
			b.Local([]string{"t"}),
			b.Set("t", b.CallN("setmetatable", b.Table(), b.Table(prog.Field{Nam: "__index",
				Val: b.fn([]string{"s", "k"}, false,
					b.Local([]string{"below"}),
					b.If(b.Bin("<=", b.n("k"), b.i(0)), []prog.Stmt{b.Return(b.i(0))}, nil),
					b.Set("below", b.Index(b.n("s"), b.Bin("-", b.n("k"), b.i(1)))),
					b.Return(b.Bin("+", b.n("below"), b.n("k"))))}))),
			b.Emit(b.s("r1"), b.Index(b.n("t"), b.i(depth))),
			b.Emit(b.s("r2"), b.Index(b.n("t"), b.i(depth)), b.CallN("rawget", b.n("t"), b.i(depth))),
		}
	}},
}
