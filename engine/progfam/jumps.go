package progfam

import "verif/engine/prog"

// ValidJumps reports whether every goto / break of a chunk body satisfies the
// static rules of the manual (§3.3.4, §3.5):
//
//   - a goto names a label of the same function that is visible (declared in
//     an enclosing block);
//   - a goto does not jump into the scope of a local: jumping forward over a
//     local declaration of the label's block is allowed only to a label
//     followed by nothing but void statements (labels) up to the end of the
//     block;
//   - no label name is declared twice in one function;
//   - break is inside a loop.
//
// Conservatively it also rejects the forward jump over a local to a label
// that ends a repeat body (the scope of that local includes the until
// expression).  Function bodies are checked where they occur as statements
// (local function / function statements) and as the sole right-hand side
// expressions of local / assignment statements.
func ValidJumps(body []prog.Stmt) bool {
	return validFunc(body)
}

type jscope struct {
	stmts []prog.Stmt
	kind  string // "", "loop", "repeat"
	at    int    // index of the statement being walked
}

func validFunc(body []prog.Stmt) bool {
	labels := map[string]bool{}
	return walkBlock(body, "", nil, labels)
}

func walkBlock(stmts []prog.Stmt, kind string, outer []*jscope, labels map[string]bool) bool {
	sc := &jscope{stmts: stmts, kind: kind}
	scopes := append(append([]*jscope{}, outer...), sc)
	for _, s := range stmts {
		if l, ok := s.(*prog.Label); ok {
			if labels[l.Name] {
				return false
			}
			labels[l.Name] = true
		}
	}
	inLoop := func() bool {
		for _, s := range scopes {
			if s.kind == "loop" || s.kind == "repeat" {
				return true
			}
		}
		return false
	}
	for i, s := range stmts {
		sc.at = i
		switch x := s.(type) {
		case *prog.Goto:
			if !gotoOK(x.Label, scopes) {
				return false
			}
		case *prog.Break:
			if !inLoop() {
				return false
			}
		case *prog.Do:
			if !walkBlock(x.Body, "", scopes, labels) {
				return false
			}
		case *prog.While:
			if !walkBlock(x.Body, "loop", scopes, labels) {
				return false
			}
		case *prog.NumFor:
			if !walkBlock(x.Body, "loop", scopes, labels) {
				return false
			}
		case *prog.GenFor:
			if !walkBlock(x.Body, "loop", scopes, labels) {
				return false
			}
		case *prog.Repeat:
			if !walkBlock(x.Body, "repeat", scopes, labels) {
				return false
			}
		case *prog.If:
			for _, blk := range x.Blocks {
				if !walkBlock(blk, "", scopes, labels) {
					return false
				}
			}
			if x.HasElse && !walkBlock(x.Else, "", scopes, labels) {
				return false
			}
		case *prog.LocalFunc:
			if !validFunc(x.F.Body) {
				return false
			}
		case *prog.FuncStat:
			if !validFunc(x.F.Body) {
				return false
			}
		case *prog.Local:
			for _, e := range x.Exprs {
				if f, ok := e.(*prog.Func); ok && !validFunc(f.Body) {
					return false
				}
			}
		case *prog.Assign:
			for _, e := range x.Exprs {
				if f, ok := e.(*prog.Func); ok && !validFunc(f.Body) {
					return false
				}
			}
		}
	}
	return true
}

func gotoOK(label string, scopes []*jscope) bool {
	for k := len(scopes) - 1; k >= 0; k-- {
		sc := scopes[k]
		j := -1
		for idx, s := range sc.stmts {
			if l, ok := s.(*prog.Label); ok && l.Name == label {
				j = idx
			}
		}
		if j < 0 {
			continue
		}
		i := sc.at
		if j <= i {
			return true // backward (or to itself): leaves scopes only
		}
		crossesLocal := false
		for _, s := range sc.stmts[i+1 : j] {
			switch s.(type) {
			case *prog.Local, *prog.LocalFunc:
				crossesLocal = true
			}
		}
		if !crossesLocal {
			return true
		}
		for _, s := range sc.stmts[j+1:] {
			if _, ok := s.(*prog.Label); !ok {
				return false // label is inside the scope of the local
			}
		}
		return sc.kind != "repeat"
	}
	return false
}
