package progfam

import (
	"fmt"

	"verif/engine/prog"
)

// F4 — operators x operand kinds, metamethods, coercions.
//
//	F4-binary:  21 binary operators x left kind x right kind x 9 forms x 3 handler results
//	F4-unary:   4 unary operators x kind x 5 forms x 3 handler results
//	F4-logic:   and/or/not/== shapes over 3 operands from {nil,false,true,0,"s"},
//	            with tracing operands where the manual sequences evaluation (short circuit)
//	F4-concat:  a..b..c and (a..b)..c over {string, integer, __concat table, plain table, nil}
//
// Operand kind "mt" is a table whose metatable defines every operator event;
// each handler emits (side tag, event, operands) and returns per `hret`.
var f4BinOps = []string{"+", "-", "*", "/", "//", "%", "^", "&", "|", "~", "<<", ">>", "..", "==", "~=", "<", "<=", ">", ">=", "and", "or"}
var f4UnOps = []string{"-", "not", "#", "~"}
var f4Kinds = []string{"i7", "i0", "f2.5", "f3.0", "s10", "sabc", "nil", "true", "tbl", "mt", "fn", "same"}
var f4BinForms = []string{"locals", "inline", "params", "ifcond", "not", "andor", "while", "chunkargs", "pcall"}
var f4UnForms = []string{"locals", "inline", "ifcond", "chunkargs", "pcall"}
var f4Hret = []string{"zero", "nil", "two"}

var f4Events = []struct {
	ev    string
	unary bool
}{
	{"add", false}, {"sub", false}, {"mul", false}, {"div", false}, {"mod", false}, {"pow", false}, {"idiv", false},
	{"band", false}, {"bor", false}, {"bxor", false}, {"shl", false}, {"shr", false}, {"concat", false},
	{"eq", false}, {"lt", false}, {"le", false}, {"unm", true}, {"bnot", true}, {"len", true},
}

func f4(th bool) []Fam {
	nk := len(f4Kinds)
	return []Fam{
		{
			Name: "F4-binary",
			Size: prod(len(f4BinOps), nk-1, nk, len(f4BinForms), len(f4Hret)),
			At: func(i uint64) *prog.Prog {
				d := dec{i}
				op := d.n(len(f4BinOps))
				l := d.n(nk - 1)
				r := d.n(nk)
				form := d.n(len(f4BinForms))
				hret := d.n(len(f4Hret))
				return f4Binary(op, l, r, form, hret)
			},
		},
		{
			Name: "F4-unary",
			Size: prod(len(f4UnOps), nk-1, len(f4UnForms), len(f4Hret)),
			At: func(i uint64) *prog.Prog {
				d := dec{i}
				op := d.n(len(f4UnOps))
				k := d.n(nk - 1)
				form := d.n(len(f4UnForms))
				hret := d.n(len(f4Hret))
				return f4Unary(op, k, form, hret)
			},
		},
		{
			Name: "F4-logic",
			Size: prod(len(f4Shapes), 5, 5, 5, 3, 2),
			At: func(i uint64) *prog.Prog {
				d := dec{i}
				sh := d.n(len(f4Shapes))
				a, bb, c := d.n(5), d.n(5), d.n(5)
				form := d.n(3)
				traced := d.n(2) == 1
				return f4Logic(sh, a, bb, c, form, traced)
			},
		},
		{
			Name: "F4-concat",
			Size: prod(5, 5, 5, 2, 2, len(f4Hret)),
			At: func(i uint64) *prog.Prog {
				d := dec{i}
				a, bb, c := d.n(5), d.n(5), d.n(5)
				left := d.n(2) == 1
				pc := d.n(2) == 1
				hret := d.n(len(f4Hret))
				return f4Concat(a, bb, c, left, pc, hret)
			},
		},
	}
}

// mkDef is:  local function mk(tag) local mt = {} mt.__add = function(x, y) emit(tag, "add", x, y) return <hret> end ... return setmetatable({}, mt) end
func (b g) mkDef(hret int) prog.Stmt {
	ret := func() prog.Stmt {
		switch f4Hret[hret] {
		case "nil":
			return b.Return(b.Nil())
		case "two":
			return b.Return(b.s("r1"), b.s("r2"))
		}
		return b.Return(b.i(0))
	}
	body := []prog.Stmt{b.Local1("mt", b.Table())}
	for _, e := range f4Events {
		params := []string{"x", "y"}
		em := []prog.Expr{b.n("tag"), b.s(e.ev), b.n("x"), b.n("y")}
		if e.unary {
			params = []string{"x"}
			em = em[:3]
		}
		body = append(body, b.Assign([]prog.Expr{b.Dot(b.n("mt"), "__"+e.ev)}, b.fn(params, false, b.Emit(em...), ret())))
	}
	body = append(body, b.Return(b.CallN("setmetatable", b.Table(), b.n("mt"))))
	return b.LocalFunc("mk", b.Func([]string{"tag"}, false, body...))
}

func f4IsScalar(k int) bool {
	switch f4Kinds[k] {
	case "tbl", "mt", "fn", "same":
		return false
	}
	return true
}

func (b g) f4Scalar(k int) (prog.Expr, interface{}) {
	switch f4Kinds[k] {
	case "i7":
		return b.i(7), int64(7)
	case "i0":
		return b.i(0), int64(0)
	case "f2.5":
		return b.Float(2.5), 2.5
	case "f3.0":
		return b.Float(3.0), 3.0
	case "s10":
		return b.s("10"), "10"
	case "sabc":
		return b.s("abc"), "abc"
	case "nil":
		return b.Nil(), nil
	case "true":
		return b.True(), true
	}
	panic("not scalar")
}

func (b g) f4Operand(k int, side string) prog.Expr {
	switch f4Kinds[k] {
	case "tbl":
		return b.Table()
	case "mt":
		return b.CallN("mk", b.s(side))
	case "fn":
		return b.fn(nil, false)
	}
	e, _ := b.f4Scalar(k)
	return e
}

func f4Binary(op, l, r, form, hret int) *prog.Prog {
	usesMT := f4Kinds[l] == "mt" || f4Kinds[r] == "mt"
	if !usesMT && hret != 0 {
		return nil // handler result unobservable: duplicate
	}
	same := f4Kinds[r] == "same"
	scalar := f4IsScalar(l) && (same || f4IsScalar(r))
	fname := f4BinForms[form]
	if (fname == "inline" || fname == "chunkargs") && (!scalar || same) {
		return nil // these forms spell the operands as literals / chunk arguments
	}
	b := newG()
	var body []prog.Stmt
	add := func(s ...prog.Stmt) { body = append(body, s...) }
	if usesMT {
		add(b.mkDef(hret))
	}
	o := f4BinOps[op]
	A := func() prog.Expr { return b.n("a") }
	B := func() prog.Expr { return b.n("b") }
	defAB := func() {
		if same {
			add(b.Local1("a", b.f4Operand(l, "L")))
			add(b.Local1("b", b.n("a")))
			return
		}
		// two statements: at most one effectful expression per statement
		add(b.Local1("a", b.f4Operand(l, "L")))
		add(b.Local1("b", b.f4Operand(r, "R")))
	}
	var args []interface{}
	switch fname {
	case "locals":
		defAB()
		add(b.Emit(b.s("v"), b.Bin(o, A(), B())))
	case "inline":
		add(b.Emit(b.s("v"), b.Bin(o, b.f4Operand(l, "L"), b.f4Operand(r, "R"))))
	case "params":
		defAB()
		add(b.LocalFunc("op", b.Func([]string{"p", "q"}, false, b.Return(b.Bin(o, b.n("p"), b.n("q"))))))
		add(b.Emit(b.s("v"), b.CallN("op", A(), B())))
	case "ifcond":
		defAB()
		add(b.If(b.Bin(o, A(), B()), []prog.Stmt{b.Emit(b.s("T"))}, []prog.Stmt{b.Emit(b.s("F"))}))
	case "not":
		defAB()
		add(b.Emit(b.s("v"), b.Un("not", b.Bin(o, A(), B()))))
	case "andor":
		defAB()
		add(b.Emit(b.s("v"), b.Bin("or", b.Bin("and", b.Bin(o, A(), B()), b.s("x")), b.s("y"))))
	case "while":
		defAB()
		add(b.Local1("k", b.i(0)))
		add(b.While(b.Bin(o, A(), B()),
			b.Set("k", b.Bin("+", b.n("k"), b.i(1))),
			b.Emit(b.s("loop"), b.n("k")),
			b.If(b.Bin(">=", b.n("k"), b.i(2)), []prog.Stmt{b.Break()}, nil)))
		add(b.Emit(b.s("k"), b.n("k")))
	case "chunkargs":
		_, va := b.f4Scalar(l)
		_, vb := b.f4Scalar(r)
		args = []interface{}{va, vb}
		add(b.Local([]string{"a", "b"}, b.Vararg()))
		add(b.Emit(b.s("v"), b.Bin(o, A(), B())))
	case "pcall":
		defAB()
		add(b.Emit(b.s("p"), b.CallN("pcall", b.fn(nil, false, b.Return(b.Bin(o, A(), B()))))))
	}
	add(b.Emit(b.s("end")))
	p := b.ProgOf(body)
	p.Args = args
	p.Key = fmt.Sprintf("op=%s l=%s r=%s form=%s hret=%s", o, f4Kinds[l], f4Kinds[r], fname, f4Hret[hret])
	return p
}

func f4Unary(op, k, form, hret int) *prog.Prog {
	usesMT := f4Kinds[k] == "mt"
	if !usesMT && hret != 0 {
		return nil
	}
	fname := f4UnForms[form]
	if (fname == "inline" || fname == "chunkargs") && !f4IsScalar(k) {
		return nil
	}
	b := newG()
	var body []prog.Stmt
	add := func(s ...prog.Stmt) { body = append(body, s...) }
	if usesMT {
		add(b.mkDef(hret))
	}
	o := f4UnOps[op]
	var args []interface{}
	switch fname {
	case "locals":
		add(b.Local1("a", b.f4Operand(k, "L")))
		add(b.Emit(b.s("v"), b.Un(o, b.n("a"))))
	case "inline":
		add(b.Emit(b.s("v"), b.Un(o, b.f4Operand(k, "L"))))
	case "ifcond":
		add(b.Local1("a", b.f4Operand(k, "L")))
		add(b.If(b.Un(o, b.n("a")), []prog.Stmt{b.Emit(b.s("T"))}, []prog.Stmt{b.Emit(b.s("F"))}))
	case "chunkargs":
		_, va := b.f4Scalar(k)
		args = []interface{}{va}
		add(b.Local([]string{"a"}, b.Vararg()))
		add(b.Emit(b.s("v"), b.Un(o, b.n("a"))))
	case "pcall":
		add(b.Local1("a", b.f4Operand(k, "L")))
		add(b.Emit(b.s("p"), b.CallN("pcall", b.fn(nil, false, b.Return(b.Un(o, b.n("a")))))))
	}
	add(b.Emit(b.s("end")))
	p := b.ProgOf(body)
	p.Args = args
	p.Key = fmt.Sprintf("unop=%s k=%s form=%s hret=%s", o, f4Kinds[k], fname, f4Hret[hret])
	return p
}

// shapes over operands A, B, C; pure = only and/or/not (evaluation is sequenced)
var f4Shapes = []struct {
	name string
	pure bool
	mk   func(b g, A, B, C func() prog.Expr) prog.Expr
}{
	{"A and B or C", true, func(b g, A, B, C func() prog.Expr) prog.Expr { return b.Bin("or", b.Bin("and", A(), B()), C()) }},
	{"A or B and C", true, func(b g, A, B, C func() prog.Expr) prog.Expr { return b.Bin("or", A(), b.Bin("and", B(), C())) }},
	{"(A or B) and C", true, func(b g, A, B, C func() prog.Expr) prog.Expr { return b.Bin("and", b.Bin("or", A(), B()), C()) }},
	{"A and (B or C)", true, func(b g, A, B, C func() prog.Expr) prog.Expr { return b.Bin("and", A(), b.Bin("or", B(), C())) }},
	{"A and B and C", true, func(b g, A, B, C func() prog.Expr) prog.Expr { return b.Bin("and", b.Bin("and", A(), B()), C()) }},
	{"A or B or C", true, func(b g, A, B, C func() prog.Expr) prog.Expr { return b.Bin("or", b.Bin("or", A(), B()), C()) }},
	{"not A and B", true, func(b g, A, B, C func() prog.Expr) prog.Expr { return b.Bin("and", b.Un("not", A()), B()) }},
	{"not (A and B) or C", true, func(b g, A, B, C func() prog.Expr) prog.Expr {
		return b.Bin("or", b.Un("not", b.Bin("and", A(), B())), C())
	}},
	{"not A or not B", true, func(b g, A, B, C func() prog.Expr) prog.Expr {
		return b.Bin("or", b.Un("not", A()), b.Un("not", B()))
	}},
	{"not not A", true, func(b g, A, B, C func() prog.Expr) prog.Expr { return b.Un("not", b.Un("not", A())) }},
	{"A == B and C", false, func(b g, A, B, C func() prog.Expr) prog.Expr { return b.Bin("and", b.Bin("==", A(), B()), C()) }},
	{"A and B == C", false, func(b g, A, B, C func() prog.Expr) prog.Expr { return b.Bin("and", A(), b.Bin("==", B(), C())) }},
	{"not A == B", false, func(b g, A, B, C func() prog.Expr) prog.Expr { return b.Bin("==", b.Un("not", A()), B()) }},
	{"A ~= B or C", false, func(b g, A, B, C func() prog.Expr) prog.Expr { return b.Bin("or", b.Bin("~=", A(), B()), C()) }},
	{"(A == B) == C", false, func(b g, A, B, C func() prog.Expr) prog.Expr { return b.Bin("==", b.Bin("==", A(), B()), C()) }},
	{"A == (B ~= C)", false, func(b g, A, B, C func() prog.Expr) prog.Expr { return b.Bin("==", A(), b.Bin("~=", B(), C())) }},
}

var f4Vals = []string{"nil", "false", "true", "0", "s"}

func (b g) f4Val(k int) prog.Expr {
	switch f4Vals[k] {
	case "nil":
		return b.Nil()
	case "false":
		return b.False()
	case "true":
		return b.True()
	case "0":
		return b.i(0)
	}
	return b.s("s")
}

func f4Logic(sh, a, bb, c, form int, traced bool) *prog.Prog {
	shape := f4Shapes[sh]
	if traced && !shape.pure {
		return nil // operands of == are not sequenced: no tracing there
	}
	b := newG()
	var body []prog.Stmt
	add := func(s ...prog.Stmt) { body = append(body, s...) }
	add(b.Local([]string{"a", "b", "c"}, b.f4Val(a), b.f4Val(bb), b.f4Val(c)))
	opnd := func(k int, name string) func() prog.Expr {
		return func() prog.Expr {
			if traced {
				return b.CallN("tr", b.i(k), b.n(name))
			}
			return b.n(name)
		}
	}
	if traced {
		// local function tr(k, v) emit("tr", k) return v end
		add(b.LocalFunc("tr", b.Func([]string{"k", "v"}, false, b.Emit(b.s("tr"), b.n("k")), b.Return(b.n("v")))))
	}
	e := shape.mk(b, opnd(1, "a"), opnd(2, "b"), opnd(3, "c"))
	switch form {
	case 0:
		add(b.Emit(b.s("v"), e))
	case 1:
		add(b.If(e, []prog.Stmt{b.Emit(b.s("T"))}, []prog.Stmt{b.Emit(b.s("F"))}))
	case 2:
		add(b.Local1("k", b.i(0)))
		add(b.Repeat([]prog.Stmt{b.Set("k", b.Bin("+", b.n("k"), b.i(1)))},
			b.Bin("or", e, b.Bin(">=", b.n("k"), b.i(2)))))
		add(b.Emit(b.s("k"), b.n("k")))
	}
	p := b.ProgOf(body)
	p.Key = fmt.Sprintf("shape=%q a=%s b=%s c=%s form=%d traced=%v", shape.name, f4Vals[a], f4Vals[bb], f4Vals[c], form, traced)
	return p
}

var f4CKinds = []string{"str", "int", "mt", "tbl", "nil"}

func f4Concat(a, bb, c int, left, pc bool, hret int) *prog.Prog {
	usesMT := f4CKinds[a] == "mt" || f4CKinds[bb] == "mt" || f4CKinds[c] == "mt"
	if !usesMT && hret != 0 {
		return nil
	}
	b := newG()
	var body []prog.Stmt
	add := func(s ...prog.Stmt) { body = append(body, s...) }
	if usesMT {
		add(b.mkDef(hret))
	}
	val := func(k int, tag string) prog.Expr {
		switch f4CKinds[k] {
		case "str":
			return b.s(tag)
		case "int":
			return b.i(len(tag) + int(tag[0]-'a'))
		case "mt":
			return b.CallN("mk", b.s(tag))
		case "tbl":
			return b.Table()
		}
		return b.Nil()
	}
	add(b.Local1("a", val(a, "a")), b.Local1("b", val(bb, "bb")), b.Local1("c", val(c, "ccc")))
	var e prog.Expr
	if left {
		e = b.Bin("..", b.Bin("..", b.n("a"), b.n("b")), b.n("c"))
	} else {
		e = b.Bin("..", b.n("a"), b.Bin("..", b.n("b"), b.n("c")))
	}
	if pc {
		add(b.Emit(b.s("p"), b.CallN("pcall", b.fn(nil, false, b.Return(e)))))
	} else {
		add(b.Emit(b.s("v"), e))
	}
	add(b.Emit(b.s("end")))
	p := b.ProgOf(body)
	p.Key = fmt.Sprintf("concat a=%s b=%s c=%s leftassoc=%v pcall=%v hret=%s", f4CKinds[a], f4CKinds[bb], f4CKinds[c], left, pc, f4Hret[hret])
	return p
}
