package progfam

import (
	"fmt"

	"verif/engine/prog"
)

// F5 — indexing.
//
//	F5-index:    __index chains (tables / functions, depth <= 3) x where the key lives
//	             x access form (t.k, t["k"], t[var], rawget, method call) x key kind
//	F5-newindex: __newindex chains x where the key already exists x store form x value
//	F5-call:     __call chains of depth 0..3 ending in a function or a non-callable
//	             x call form x argument shape
//	F5-string:   indexing strings / numbers / nil (string metatable, errors)
var f5Chains = []string{"", "T", "F", "TT", "TF", "TTT", "TTF"}
var f5Access = []string{"dot", "bracket", "var", "rawget", "method"}
var f5KeyKinds = []string{"name", "int", "float"}
var f5Store = []string{"dot", "var", "rawset"}
var f5CallForms = []string{"stat", "value", "tail", "pcall", "method", "select"}
var f5CallArgs = []string{"none", "one", "two", "multi"}

func f5(th bool) []Fam {
	return []Fam{
		{
			Name: "F5-index",
			Size: prod(len(f5Chains), 5, len(f5Access), len(f5KeyKinds)),
			At: func(i uint64) *prog.Prog {
				d := dec{i}
				return f5Index(d.n(len(f5Chains)), d.n(5), d.n(len(f5Access)), d.n(len(f5KeyKinds)))
			},
		},
		{
			Name: "F5-newindex",
			Size: prod(len(f5Chains), 5, len(f5Store), 2, len(f5KeyKinds)),
			At: func(i uint64) *prog.Prog {
				d := dec{i}
				return f5NewIndex(d.n(len(f5Chains)), d.n(5), d.n(len(f5Store)), d.n(2), d.n(len(f5KeyKinds)))
			},
		},
		{
			Name: "F5-call",
			Size: prod(4, 2, len(f5CallForms), len(f5CallArgs)),
			At: func(i uint64) *prog.Prog {
				d := dec{i}
				return f5Call(d.n(4), d.n(2) == 1, d.n(len(f5CallForms)), d.n(len(f5CallArgs)))
			},
		},
		{
			Name: "F5-string",
			Size: uint64(len(f5StringCases)),
			At:   func(i uint64) *prog.Prog { return f5String(int(i)) },
		},
	}
}

func (b g) f5Key(kind int, stored bool) prog.Expr {
	switch f5KeyKinds[kind] {
	case "int":
		return b.i(1)
	case "float":
		if stored {
			return b.i(1) // stored under the integer key, read with the float 1.0
		}
		return b.Float(1.0)
	}
	return b.s("k")
}

// chain builds objects o0 (accessed), o1.. (tables of the chain) and links
// them with the given event; returns the number of tables.
func (b g) f5Chain(chain, event string, add func(...prog.Stmt), handler func(level int) prog.Expr) int {
	add(b.Local1("o0", b.Table()))
	n := 1
	for lvl, c := range chain {
		prev := fmt.Sprintf("o%d", n-1)
		if c == 'T' {
			cur := fmt.Sprintf("o%d", n)
			add(b.Local1(cur, b.Table()))
			add(b.CallS(b.CallN("setmetatable", b.n(prev), b.Table(prog.Field{Nam: event, Val: b.n(cur)}))))
			n++
		} else {
			add(b.CallS(b.CallN("setmetatable", b.n(prev), b.Table(prog.Field{Nam: event, Val: handler(lvl + 1)}))))
		}
	}
	return n
}

func f5Index(ch, loc, acc, kk int) *prog.Prog {
	chain := f5Chains[ch]
	b := newG()
	var body []prog.Stmt
	add := func(s ...prog.Stmt) { body = append(body, s...) }
	ntab := b.f5Chain(chain, "__index", add, func(level int) prog.Expr {
		// function(t, k) emit("idx", level, t, k) return "h<level>", "extra" end
		return b.fn([]string{"t", "k"}, false,
			b.Emit(b.s("idx"), b.i(level), b.n("t"), b.n("k")),
			b.Return(b.s(fmt.Sprintf("h%d", level)), b.s("extra")))
	})
	// loc: 0..3 = table holding the key, 4 = nowhere
	if loc < 4 && loc >= ntab {
		return nil
	}
	access := f5Access[acc]
	if access == "method" && f5KeyKinds[kk] != "name" {
		return nil // o:name(...) needs a name
	}
	if loc < 4 {
		holder := fmt.Sprintf("o%d", loc)
		var val prog.Expr = b.s(fmt.Sprintf("v%d", loc))
		if access == "method" {
			val = b.fn([]string{"self", "x"}, false, b.Emit(b.s("m"), b.n("self"), b.n("x")), b.Return(b.s("mv"), b.s("mv2")))
		}
		add(b.Assign([]prog.Expr{b.Index(b.n(holder), b.f5Key(kk, true))}, val))
	}
	add(b.Emit(b.s("objs"), b.n("o0"))) // number the accessed table first
	key := b.f5Key(kk, false)
	switch access {
	case "dot", "bracket":
		// rendered t.k for names in most styles, t["k"] in the altlit style
		add(b.Emit(b.s("v"), b.Index(b.n("o0"), key)))
	case "var":
		add(b.Local1("key", key))
		add(b.Emit(b.s("v"), b.Index(b.n("o0"), b.n("key"))))
	case "rawget":
		add(b.Emit(b.s("v"), b.CallN("rawget", b.n("o0"), key)))
	case "method":
		add(b.Emit(b.s("v"), b.CallN("pcall", b.fn(nil, false, b.Return(b.Method(b.n("o0"), "k", b.i(5)))))))
	}
	if access == "bracket" {
		// a second read: the chain must be walked again, nothing is cached
		add(b.Emit(b.s("v2"), b.Index(b.n("o0"), b.f5Key(kk, false))))
	}
	add(b.Emit(b.s("end")))
	p := b.ProgOf(body)
	p.Key = fmt.Sprintf("index chain=%q keyat=%d access=%s key=%s", chain, loc, access, f5KeyKinds[kk])
	return p
}

func f5NewIndex(ch, loc, st, val, kk int) *prog.Prog {
	chain := f5Chains[ch]
	b := newG()
	var body []prog.Stmt
	add := func(s ...prog.Stmt) { body = append(body, s...) }
	ntab := b.f5Chain(chain, "__newindex", add, func(level int) prog.Expr {
		return b.fn([]string{"t", "k", "v"}, false,
			b.Emit(b.s("nidx"), b.i(level), b.n("t"), b.n("k"), b.n("v")),
			b.Return(b.s("ignored")))
	})
	if loc < 4 && loc >= ntab {
		return nil
	}
	if loc < 4 {
		add(b.CallS(b.CallN("rawset", b.n(fmt.Sprintf("o%d", loc)), b.f5Key(kk, true), b.s("old"))))
	}
	add(b.Emit(b.s("objs"), b.n("o0")))
	var v prog.Expr = b.s("new")
	if val == 1 {
		v = b.Nil()
	}
	key := b.f5Key(kk, false)
	switch f5Store[st] {
	case "dot":
		add(b.Assign([]prog.Expr{b.Index(b.n("o0"), key)}, v))
	case "var":
		add(b.Local1("key", key))
		add(b.Assign([]prog.Expr{b.Index(b.n("o0"), b.n("key"))}, v))
	case "rawset":
		add(b.Emit(b.s("rs"), b.CallN("rawset", b.n("o0"), key, v)))
	}
	for k := 0; k < ntab; k++ {
		add(b.Emit(b.s("raw"), b.i(k), b.CallN("rawget", b.n(fmt.Sprintf("o%d", k)), b.f5Key(kk, true))))
	}
	p := b.ProgOf(body)
	p.Key = fmt.Sprintf("newindex chain=%q keyat=%d store=%s nilvalue=%v key=%s", chain, loc, f5Store[st], val == 1, f5KeyKinds[kk])
	return p
}

func f5Call(depth int, callable bool, form, argk int) *prog.Prog {
	b := newG()
	var body []prog.Stmt
	add := func(s ...prog.Stmt) { body = append(body, s...) }
	// c0 is the innermost callee
	if callable {
		add(b.Local1("c0", b.fn(nil, true,
			b.Emit(b.s("called"), b.CallN("select", b.s("#"), b.Vararg()), b.Vararg()),
			b.Return(b.s("r1"), b.s("r2")))))
	} else {
		add(b.Local1("c0", b.Table())) // not callable
	}
	for k := 1; k <= depth; k++ {
		add(b.Local1(fmt.Sprintf("c%d", k),
			b.CallN("setmetatable", b.Table(), b.Table(prog.Field{Nam: "__call", Val: b.n(fmt.Sprintf("c%d", k-1))}))))
	}
	top := fmt.Sprintf("c%d", depth)
	add(b.Emit(b.s("objs"), b.n(top)))
	add(b.LocalFunc("two", b.Func(nil, false, b.Return(b.s("x"), b.s("y")))))
	args := func() []prog.Expr {
		switch f5CallArgs[argk] {
		case "one":
			return []prog.Expr{b.i(1)}
		case "two":
			return []prog.Expr{b.i(1), b.i(2)}
		case "multi":
			return []prog.Expr{b.i(1), b.CallN("two")}
		}
		return nil
	}
	switch f5CallForms[form] {
	case "stat":
		add(b.CallS(b.Call(b.n(top), args()...)))
	case "value":
		add(b.Emit(b.s("v"), b.Call(b.n(top), args()...)))
	case "tail":
		add(b.LocalFunc("w", b.Func(nil, false, b.Return(b.Call(b.n(top), args()...)))))
		add(b.Emit(b.s("v"), b.CallN("w")))
	case "pcall":
		add(b.Emit(b.s("p"), b.CallN("pcall", append([]prog.Expr{b.n(top)}, args()...)...)))
	case "method":
		add(b.Local1("o", b.Table(prog.Field{Nam: "m", Val: b.n(top)})))
		add(b.Emit(b.s("o"), b.n("o")))
		add(b.Emit(b.s("v"), b.Method(b.n("o"), "m", args()...)))
	case "select":
		add(b.Emit(b.s("n"), b.CallN("select", b.s("#"), b.Call(b.n(top), args()...))))
	}
	add(b.Emit(b.s("end")))
	p := b.ProgOf(body)
	p.Key = fmt.Sprintf("call depth=%d callable=%v form=%s args=%s", depth, callable, f5CallForms[form], f5CallArgs[argk])
	return p
}

var f5StringCases = []struct {
	name string
	mk   func(b g) []prog.Stmt
}{
	{"len-field", func(b g) []prog.Stmt {
		return []prog.Stmt{b.Emit(b.s("v"), b.Call(b.Dot(b.Paren(b.s("abc")), "len"), b.s("xy")))}
	}},
	{"method-upper", func(b g) []prog.Stmt { return []prog.Stmt{b.Emit(b.s("v"), b.Method(b.s("abc"), "upper"))} }},
	{"method-on-local", func(b g) []prog.Stmt {
		return []prog.Stmt{b.Local1("s", b.s("Hello")), b.Emit(b.s("v"), b.Method(b.n("s"), "lower"), b.Method(b.n("s"), "len"))}
	}},
	{"method-sub", func(b g) []prog.Stmt {
		return []prog.Stmt{b.Local1("s", b.s("Hello")), b.Emit(b.s("v"), b.Method(b.n("s"), "sub", b.i(2), b.i(-2)))}
	}},
	{"method-rep-chain", func(b g) []prog.Stmt {
		return []prog.Stmt{b.Emit(b.s("v"), b.Method(b.Method(b.s("ab"), "rep", b.i(3)), "reverse"))}
	}},
	{"missing-field", func(b g) []prog.Stmt { return []prog.Stmt{b.Emit(b.s("v"), b.Dot(b.Paren(b.s("abc")), "nokey"))} }},
	{"int-index", func(b g) []prog.Stmt { return []prog.Stmt{b.Emit(b.s("v"), b.Index(b.Paren(b.s("abc")), b.i(1)))} }},
	{"string-newindex", func(b g) []prog.Stmt {
		return []prog.Stmt{b.Local1("s", b.s("abc")),
			b.Emit(b.s("p"), b.CallN("pcall", b.fn(nil, false, b.Assign([]prog.Expr{b.Dot(b.n("s"), "x")}, b.i(1)))))}
	}},
	{"number-index", func(b g) []prog.Stmt {
		return []prog.Stmt{b.Local1("n", b.i(5)),
			b.Emit(b.s("p"), b.CallN("pcall", b.fn(nil, false, b.Return(b.Dot(b.n("n"), "x")))))}
	}},
	{"nil-index", func(b g) []prog.Stmt {
		return []prog.Stmt{b.Local([]string{"n"}),
			b.Emit(b.s("p"), b.CallN("pcall", b.fn(nil, false, b.Return(b.Dot(b.n("n"), "x")))))}
	}},
	{"nil-newindex", func(b g) []prog.Stmt {
		return []prog.Stmt{b.Local([]string{"n"}),
			b.Emit(b.s("p"), b.CallN("pcall", b.fn(nil, false, b.Assign([]prog.Expr{b.Dot(b.n("n"), "x")}, b.i(1)))))}
	}},
	{"bool-method", func(b g) []prog.Stmt {
		return []prog.Stmt{b.Local1("n", b.True()),
			b.Emit(b.s("p"), b.CallN("pcall", b.fn(nil, false, b.Return(b.Method(b.n("n"), "x")))))}
	}},
	{"nil-key-read", func(b g) []prog.Stmt {
		return []prog.Stmt{b.Local1("t", b.Table()), b.Emit(b.s("v"), b.Index(b.n("t"), b.Nil()))}
	}},
	{"nil-key-write", func(b g) []prog.Stmt {
		return []prog.Stmt{b.Local1("t", b.Table()),
			b.Emit(b.s("p"), b.CallN("pcall", b.fn(nil, false, b.Assign([]prog.Expr{b.Index(b.n("t"), b.Nil())}, b.i(1)))))}
	}},
	{"nan-key-write", func(b g) []prog.Stmt {
		return []prog.Stmt{b.Local1("t", b.Table()), b.Local1("z", b.i(0)),
			b.Emit(b.s("p"), b.CallN("pcall", b.fn(nil, false,
				b.Assign([]prog.Expr{b.Index(b.n("t"), b.Bin("/", b.n("z"), b.n("z")))}, b.i(1)))))}
	}},
	{"nan-key-read", func(b g) []prog.Stmt {
		return []prog.Stmt{b.Local1("t", b.Table()), b.Local1("z", b.i(0)),
			b.Emit(b.s("v"), b.Index(b.n("t"), b.Bin("/", b.n("z"), b.n("z"))))}
	}},
	{"float-key-normalised", func(b g) []prog.Stmt {
		return []prog.Stmt{b.Local1("t", b.Table()),
			b.Assign([]prog.Expr{b.Index(b.n("t"), b.Float(2.0))}, b.s("two")),
			b.Emit(b.s("v"), b.Index(b.n("t"), b.i(2)), b.CallN("rawget", b.n("t"), b.i(2)), b.CallN("next", b.n("t")))}
	}},
	{"getmetatable-string-index", func(b g) []prog.Stmt {
		return []prog.Stmt{b.Emit(b.s("v"), b.Bin("==", b.Dot(b.CallN("getmetatable", b.s("")), "__index"), b.n("string")))}
	}},
	{"metatable-field-protect", func(b g) []prog.Stmt {
		return []prog.Stmt{
			b.Local1("t", b.CallN("setmetatable", b.Table(), b.Table(prog.Field{Nam: "__metatable", Val: b.s("locked")}))),
			b.Emit(b.s("v"), b.CallN("getmetatable", b.n("t"))),
			b.Emit(b.s("p"), b.CallN("pcall", b.n("setmetatable"), b.n("t"), b.Table()))}
	}},
}

func f5String(i int) *prog.Prog {
	b := newG()
	c := f5StringCases[i]
	body := c.mk(b)
	body = append(body, b.Emit(b.s("end")))
	p := b.ProgOf(body)
	p.Key = "string " + c.name
	return p
}
