package progfam

import (
	"fmt"

	"verif/engine/prog"
)

// F7 — generic for.
//
//	iterator kind {stateless function, stateful closure, callable table,
//	               ipairs, next on a one-key table, pairs with __pairs}
//	x explist form {f, s, init | one call returning everything | with a 4th closing value}
//	x loop variables 1..3 x values returned per step 1..3
//	x body {emit, break, capture closures, goto continue, return, error in body, error in iterator}
//	x closing value {none, closable, false}
//
// The loop runs inside  local function run() ... end  emit("r", pcall(run)).
var f7Kinds = []string{"stateless", "closure", "callable", "ipairs", "next", "pairs"}
var f7Forms = []string{"direct", "call", "closing"}
var f7Actions = []string{"emit", "break", "capture", "continue", "return", "bodyerror", "itererror"}
var f7Closing = []string{"none", "closable", "false"}

func f7(th bool) []Fam {
	return []Fam{{
		Name: "F7-generic-for",
		Size: prod(len(f7Kinds), len(f7Forms), 3, 3, len(f7Actions), len(f7Closing)),
		At: func(i uint64) *prog.Prog {
			d := dec{i}
			kind := d.n(len(f7Kinds))
			form := d.n(len(f7Forms))
			nvars := d.n(3) + 1
			nrets := d.n(3) + 1
			act := d.n(len(f7Actions))
			cl := d.n(len(f7Closing))
			return f7Build(kind, form, nvars, nrets, act, cl)
		},
	}}
}

func f7Build(kind, form, nvars, nrets, act, cl int) *prog.Prog {
	kname, fname, aname, cname := f7Kinds[kind], f7Forms[form], f7Actions[act], f7Closing[cl]
	custom := kind <= 2
	if !custom && (nrets != 1 || aname == "itererror") {
		return nil // library iterators fix what a step returns and do not raise here
	}
	if (fname == "closing") != (cname != "none") {
		return nil
	}
	if !custom && fname == "closing" {
		return nil
	}
	b := newG()
	var run []prog.Stmt
	add := func(s ...prog.Stmt) { run = append(run, s...) }

	// step values for iteration c (1..3): c, "v<c>"-like expressions
	stepRets := func(c prog.Expr) []prog.Expr {
		out := []prog.Expr{c}
		if nrets >= 2 {
			out = append(out, b.Bin("*", c, b.i(10)))
		}
		if nrets >= 3 {
			out = append(out, b.Bin("*", c, b.i(100)))
		}
		return out
	}
	raise := func(c string) prog.Stmt {
		if aname != "itererror" {
			return b.Do()
		}
		return b.If(b.Bin("==", b.n(c), b.i(2)), []prog.Stmt{b.CallS(b.CallN("error", b.s("iter")))}, nil)
	}
	var explist []prog.Expr
	switch kname {
	case "stateless":
		// local function iter(s, c) emit("it", s, c) if c >= s.n then return nil end c = c + 1 <raise> return c, ... end
		add(b.LocalFunc("iter", b.Func([]string{"s", "c"}, false,
			b.Emit(b.s("it"), b.n("s"), b.n("c")),
			b.If(b.Bin(">=", b.n("c"), b.Dot(b.n("s"), "n")), []prog.Stmt{b.Return(b.Nil())}, nil),
			b.Set("c", b.Bin("+", b.n("c"), b.i(1))),
			raise("c"),
			b.Return(stepRets(b.n("c"))...))))
		add(b.Local1("state", b.Table(prog.Field{Nam: "n", Val: b.i(3)})))
		explist = []prog.Expr{b.n("iter"), b.n("state"), b.i(0)}
	case "closure", "callable":
		add(b.Local1("cnt", b.i(0)))
		f := b.fn([]string{"s", "c"}, false,
			b.Emit(b.s("it"), b.n("s"), b.n("c")),
			b.If(b.Bin(">=", b.n("cnt"), b.i(3)), []prog.Stmt{b.Return()}, nil),
			b.Set("cnt", b.Bin("+", b.n("cnt"), b.i(1))),
			raise("cnt"),
			b.Return(stepRets(b.n("cnt"))...))
		if kname == "closure" {
			add(b.Local1("iter", f))
		} else {
			// the callable receives itself first
			f = b.fn([]string{"self", "s", "c"}, false,
				b.Emit(b.s("it"), b.n("s"), b.n("c")),
				b.If(b.Bin(">=", b.n("cnt"), b.i(3)), []prog.Stmt{b.Return()}, nil),
				b.Set("cnt", b.Bin("+", b.n("cnt"), b.i(1))),
				raise("cnt"),
				b.Return(stepRets(b.n("cnt"))...))
			add(b.Local1("iter", b.CallN("setmetatable", b.Table(), b.Table(prog.Field{Nam: "__call", Val: f}))))
		}
		explist = []prog.Expr{b.n("iter"), b.s("st"), b.s("init")}
	case "ipairs":
		add(b.Local1("t", b.List(b.s("a"), b.s("b"), b.s("c"))))
		explist = []prog.Expr{b.CallN("ipairs", b.n("t"))}
	case "next":
		add(b.Local1("t", b.Table(prog.Field{Nam: "k", Val: b.s("v")})))
		explist = []prog.Expr{b.n("next"), b.n("t")}
		if fname == "call" {
			explist = []prog.Expr{b.CallN("pairs", b.n("t"))}
		}
	case "pairs":
		// __pairs returns a counting iterator
		add(b.Local1("t", b.CallN("setmetatable", b.Table(), b.Table(prog.Field{Nam: "__pairs", Val: b.fn([]string{"o"}, false,
			b.Emit(b.s("pairs"), b.n("o")),
			b.Return(b.fn([]string{"s", "c"}, false,
				b.If(b.Bin("<", b.n("c"), b.i(3)), []prog.Stmt{b.Return(b.Bin("+", b.n("c"), b.i(1)), b.s("pv"))}, nil)),
				b.n("o"), b.i(0), b.s("ignored-4th")))}))))
		explist = []prog.Expr{b.CallN("pairs", b.n("t"))}
	}
	if custom && fname != "direct" {
		if cname == "closable" {
			add(b.Local1("closer", b.CallN("setmetatable", b.Table(), b.Table(prog.Field{Nam: "__close",
				Val: b.fn([]string{"o", "e"}, false, b.Emit(b.s("closed"), b.n("o"), b.n("e")))}))))
			explist = append(explist, b.n("closer"))
		} else if cname == "false" {
			explist = append(explist, b.False())
		}
	}
	if fname == "call" && custom {
		// local function triple() return iter, s, init end
		add(b.LocalFunc("triple", b.Func(nil, false, b.Return(explist...))))
		explist = []prog.Expr{b.CallN("triple")}
	}
	if fname == "call" && (kname == "ipairs" || kname == "pairs") {
		return nil // ipairs(t) / pairs(t) already are calls: duplicate of direct
	}
	vars := []string{"v1", "v2", "v3"}[:nvars]
	vexprs := func() []prog.Expr {
		out := []prog.Expr{b.s("b")}
		for _, v := range vars {
			out = append(out, b.n(v))
		}
		return out
	}
	var body []prog.Stmt
	is2 := func() prog.Expr {
		if kname == "next" {
			return b.Bin("==", b.n("v1"), b.s("k"))
		}
		return b.Bin("==", b.n("v1"), b.i(2))
	}
	switch aname {
	case "emit", "itererror":
		body = []prog.Stmt{b.Emit(vexprs()...)}
	case "break":
		body = []prog.Stmt{b.Emit(vexprs()...), b.If(is2(), []prog.Stmt{b.Break()}, nil)}
	case "capture":
		v := vars[len(vars)-1]
		body = []prog.Stmt{b.push("fs", b.fn(nil, false, b.Return(b.n("v1"), b.n(v))))}
	case "continue":
		body = []prog.Stmt{b.If(is2(), []prog.Stmt{b.Goto("continue")}, nil), b.Emit(vexprs()...), b.Label("continue")}
	case "return":
		body = []prog.Stmt{b.Emit(vexprs()...), b.If(is2(), []prog.Stmt{b.Return(b.s("early"), b.n("v1"))}, nil)}
	case "bodyerror":
		body = []prog.Stmt{b.Emit(vexprs()...), b.If(is2(), []prog.Stmt{b.CallS(b.CallN("error", b.Table(prog.Field{Nam: "code", Val: b.i(7)})))}, nil)}
	}
	add(b.GenFor(vars, explist, body...))
	add(b.Emit(b.s("after")))
	add(b.Return(b.s("fin")))
	prog1 := []prog.Stmt{
		b.Set("fs", b.List()),
		b.LocalFunc("run", b.Func(nil, false, run...)),
		b.Emit(b.s("r"), b.CallN("pcall", b.n("run"))),
		b.callAll("fs"),
	}
	p := b.ProgOf(prog1)
	p.Key = fmt.Sprintf("iter=%s form=%s vars=%d rets=%d body=%s closing=%s", kname, fname, nvars, nrets, aname, cname)
	return p
}
