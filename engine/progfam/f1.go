package progfam

import (
	"strings"

	"verif/engine/prog"
)

// F1 — scoping & closures.  A program is a token string over the alphabet
// below; block tokens nest (unclosed blocks are closed at the end).  Prelude:
//
//	local x = 1   y = 2   fs = {}          -- x local, y global, i global (nil)
//
// epilogue:  emit("end", x, y, i)  <call all closures>  <call all closures>
//
// so every closure created inside a loop or block is called after its scope
// has ended (fresh variable per iteration, shared upvalues, register reuse).
var f1Tok = []string{
	"Lx", "Ly", // local v = <100*pos>
	"Ux",       // local x            (nil: must not show a stale register)
	"Sx",       // local x = (x or 0) + 1000   (the initialiser sees the outer x)
	"Ix", "Iy", // v = (v or 0) + 1
	"Gx", "Gy", "Gi", // fs[#fs+1] = function() return v end
	"Cx", "Cy", // fs[#fs+1] = function() v = (v or 0) + 1 return v end
	"E",    // emit("e", x, y, i)
	"CALL", // for k = 1, #fs do emit(k, fs[k]()) end
	"DO", "FOR", "WHILE", "REPEAT", "IF", "ELSE", "END",
}

// f1TokX is the single-variable sub-alphabet used for length 5 (thorough).
var f1TokX = []string{"Lx", "Ux", "Sx", "Ix", "Gx", "Gi", "Cx", "E", "CALL", "DO", "FOR", "WHILE", "REPEAT", "IF", "ELSE", "END"}

func f1(th bool) []Fam {
	a := len(f1Tok)
	fams := []Fam{{
		Name: "F1-scope-closure",
		Size: seqSize(a, 4),
		At: func(i uint64) *prog.Prog {
			return f1Build(tokNames(f1Tok, seqIndex(i, a, 4)))
		},
	}}
	if th {
		ax := len(f1TokX)
		fams = append(fams, Fam{
			Name: "F1-scope-closure-len5",
			Size: pow(ax, 5),
			At: func(i uint64) *prog.Prog {
				toks := make([]int, 5)
				for k := 4; k >= 0; k-- {
					toks[k] = int(i % uint64(ax))
					i /= uint64(ax)
				}
				return f1Build(tokNames(f1TokX, toks))
			},
		})
	}
	return fams
}

func tokNames(alphabet []string, toks []int) []string {
	if toks == nil {
		return nil
	}
	out := make([]string, len(toks))
	for k, t := range toks {
		out[k] = alphabet[t]
	}
	return out
}

func f1Build(toks []string) *prog.Prog {
	if toks == nil {
		return nil
	}
	b := newG()
	st := newBlockStack()
	st.add(b.Local1("x", b.i(1)), b.Set("y", b.i(2)), b.Set("fs", b.List()))
	names := make([]string, len(toks))
	for pos, tok := range toks {
		names[pos] = tok
		v := ""
		if len(tok) == 2 {
			v = tok[1:]
		}
		switch {
		case tok[0] == 'L' && v != "":
			st.add(b.Local1(v, b.i(100*(pos+1))))
		case tok[0] == 'U' && v != "":
			st.add(b.Local([]string{v}))
		case tok[0] == 'S' && v != "":
			st.add(b.Local1(v, b.Bin("+", b.orZero(v), b.i(1000))))
		case tok[0] == 'I' && tok != "IF":
			st.add(b.Set(v, b.Bin("+", b.orZero(v), b.i(1))))
		case tok[0] == 'G':
			st.add(b.push("fs", b.fn(nil, false, b.Return(b.n(v)))))
		case tok[0] == 'C' && tok != "CALL":
			st.add(b.push("fs", b.fn(nil, false,
				b.Set(v, b.Bin("+", b.orZero(v), b.i(1))),
				b.Return(b.n(v)))))
		case tok == "E":
			st.add(b.Emit(b.s("e"), b.n("x"), b.n("y"), b.n("i")))
		case tok == "CALL":
			st.add(b.callAll("fs"))
		case tok == "DO":
			st.open("do", func(f *bframe) []prog.Stmt { return []prog.Stmt{b.Do(f.body...)} })
		case tok == "FOR":
			st.open("for", func(f *bframe) []prog.Stmt {
				return []prog.Stmt{b.NumFor("i", b.i(1), b.i(2), nil, f.body...)}
			})
		case tok == "WHILE":
			c := "c" + string(rune('0'+pos))
			st.add(b.Local1(c, b.i(0)))
			st.open("while", func(f *bframe) []prog.Stmt {
				body := append([]prog.Stmt{b.Set(c, b.Bin("+", b.n(c), b.i(1)))}, f.body...)
				return []prog.Stmt{b.While(b.Bin("<", b.n(c), b.i(2)), body...)}
			})
		case tok == "REPEAT":
			c := "c" + string(rune('0'+pos))
			st.add(b.Local1(c, b.i(0)))
			st.open("repeat", func(f *bframe) []prog.Stmt {
				body := append([]prog.Stmt{b.Set(c, b.Bin("+", b.n(c), b.i(1)))}, f.body...)
				// the condition sees the locals of the body
				cond := b.Bin("or", b.CallN("emit", b.s("u"), b.n("x"), b.n("y")), b.Bin(">=", b.n(c), b.i(2)))
				return []prog.Stmt{b.Repeat(body, cond)}
			})
		case tok == "IF":
			st.open("if", func(f *bframe) []prog.Stmt {
				cond := b.Bin("==", b.Bin("%", b.orZero("x"), b.i(2)), b.i(0))
				if f.els {
					return []prog.Stmt{b.If(cond, nonNil(f.then), nonNil(f.body))}
				}
				return []prog.Stmt{b.If(cond, nonNil(f.body), nil)}
			})
		case tok == "ELSE":
			f := st.top()
			if f.kind != "if" || f.els {
				return nil
			}
			f.els, f.then, f.body = true, f.body, nil
		case tok == "END":
			if pos == len(toks)-1 || !st.closeTop() {
				return nil // a trailing END duplicates the shorter string
			}
		}
	}
	body := st.closeAll()
	body = append(body,
		b.Emit(b.s("end"), b.n("x"), b.n("y"), b.n("i")),
		b.callAll("fs"), b.callAll("fs"))
	p := b.ProgOf(body)
	p.Key = "[" + strings.Join(names, " ") + "]"
	return p
}

func nonNil(s []prog.Stmt) []prog.Stmt {
	if s == nil {
		return []prog.Stmt{}
	}
	return s
}
