package progfam

import (
	"fmt"

	"verif/engine/prog"
)

// F9 — a hand-written corpus of short programs (given as text, parsed by
// prog.Parse into the AST that both the reference and the renderers use) that
// each pin one sentence of the manual not reached by the product families,
// and F2b — vararg expression forms x argument tuples.
//
// Discipline reminder for whoever adds programs: one effectful expression per
// expression list, no # on tables with holes, no float->string conversion, no
// pairs over more than one key, only library functions modelled by reflua.
type corpusProg struct {
	Name string
	Src  string
	Args []interface{}
}

// Corpus returns the hand-written programs (for checks that want the text).
func Corpus() []struct {
	Name string
	Prog *prog.Prog
} {
	var out []struct {
		Name string
		Prog *prog.Prog
	}
	for _, c := range corpus {
		p := prog.MustParse(c.Src)
		p.Args = c.Args
		p.Key = "corpus " + c.Name
		out = append(out, struct {
			Name string
			Prog *prog.Prog
		}{c.Name, p})
	}
	return out
}

func f9(th bool) []Fam {
	return []Fam{
		{
			Name: "F9-corpus",
			Size: uint64(len(corpus)),
			At: func(i uint64) *prog.Prog {
				c := corpus[i]
				p, err := prog.Parse(c.Src)
				if err != nil {
					panic(fmt.Sprintf("corpus program %s: %v", c.Name, err))
				}
				p.Args = c.Args
				p.Key = "corpus " + c.Name
				return p
			},
		},
		{
			Name: "F2b-varargs",
			Size: prod(len(f2bForms), len(f2bArgs)),
			At: func(i uint64) *prog.Prog {
				d := dec{i}
				form := d.n(len(f2bForms))
				a := d.n(len(f2bArgs))
				src := "local function pass(...) return ... end\n" +
					"local function cnt(...) return select('#', ...) end\n" +
					"local function f(...)\n" + f2bForms[form].body + "\nend\n" +
					"emit(\"r\", f(" + f2bArgs[a] + "))\n" +
					"local function main(...)\n" + f2bForms[form].body + "\nend\n" +
					"emit(\"m\", pcall(main, " + f2bArgs[a] + "))\n"
				if f2bArgs[a] == "" {
					src = "local function pass(...) return ... end\n" +
						"local function cnt(...) return select('#', ...) end\n" +
						"local function f(...)\n" + f2bForms[form].body + "\nend\n" +
						"emit(\"r\", f())\n" +
						"emit(\"m\", pcall(f))\n"
				}
				p, err := prog.Parse(src)
				if err != nil {
					panic(fmt.Sprintf("F2b form %s: %v\n%s", f2bForms[form].name, err, src))
				}
				p.Key = fmt.Sprintf("varargs form=%s args=(%s)", f2bForms[form].name, f2bArgs[a])
				return p
			},
		},
	}
}

var f2bArgs = []string{"", "1", "nil", "nil, 2", "1, nil", "1, 2, 3", "nil, nil, nil", "1, 2, 3, 4, 5"}

var f2bForms = []struct{ name, body string }{
	{"count", `return select('#', ...)`},
	{"return-all", `return ...`},
	{"return-parendots", `return (...)`},
	{"return-then-const", `return ..., "z"`},
	{"return-const-then", `return "a", ...`},
	{"local2", `local a, b = ... return a, b`},
	{"local-extra", `local a, b, c, d = ..., "x" return a, b, c, d`},
	{"table-all", `local t = {...} return t[1], t[2], t[3], t[4], t[5], t[6]`},
	{"table-mid", `local t = {..., "z"} return t[1], t[2], t[3]`},
	{"table-last", `local t = {"a", ...} return t[1], t[2], t[3], t[4], t[5], t[6], t[7]`},
	{"table-keyed", `local t = {x = ..., ...} return t.x, t[1], t[2]`},
	{"call-all", `return cnt(...)`},
	{"call-mid", `return cnt(..., 1)`},
	{"call-pass", `return pass(...)`},
	{"call-pass-paren", `return (pass(...))`},
	{"call-pass-twice", `return pass(pass(...))`},
	{"select-1", `return select(1, ...)`},
	{"select-2", `return select(2, ...)`},
	{"select-neg1", `return select(-1, ...)`},
	{"select-neg2", `return select(-2, ...)`},
	{"pack-n", `local t = table.pack(...) return t.n, t[1], t[2], t[3]`},
	{"unpack-n", `local t = table.pack(...) return table.unpack(t, 1, t.n)`},
	{"eq-nil", `return ... == nil`},
	{"eq-nil-parendots", `return (...) == nil`},
	{"table-parendots", `local t = {(...)} return t[1], t[2]`},
	{"call-parendots", `return cnt((...))`},
	{"local-parendots", `local a, b = (...) return a, b`},
	{"arith", `return (... or 0) + 1`},
	{"and-or", `return ... and "t" or "f"`},
	{"closure", `local a, b = ... local function g() return a, b end return g()`},
	{"inner-vararg", `local function g(...) return select('#', ...), ... end return g(...)`},
	{"inner-shift", `local function g(x, ...) return x, select('#', ...) end return g(...)`},
	{"loop", `local s = 0 for i = 1, select('#', ...) do local v = select(i, ...) if v then s = s + v end end return s`},
	{"assign-multi", `local a, b a, b = ... return b, a`},
	{"method", `local o = {m = function(self, ...) return select('#', ...), ... end} return o:m(...)`},
	{"tostring-parendots", `return "<" .. tostring((...)) .. ">"`},
	{"index-first", `local t = {10, 20, 30} return t[...]`},
	{"if-cond", `if ... then return "T" else return "F" end`},
	{"while-cond", `local n = 0 while ... do n = n + 1 if n > 1 then break end end return n`},
}

var corpus = []corpusProg{
	{Name: "local-function-recursion", Src: `
local function fact(n) if n <= 1 then return 1 end return n * fact(n - 1) end
emit(fact(5))
local fib = function(n) if n < 2 then return n end return fib(n - 1) end
emit(pcall(fib, 3))
emit(pcall(fib, 1))
`},
	{Name: "shadowing", Src: `
local x = 1
local x = x + 1
do local x = x + 10 emit(x) end
emit(x)
local function f(x) x = x + 1 return x end
emit(f(x))
emit(x)
`},
	{Name: "upvalue-sharing", Src: `
local function counter()
  local n = 0
  return function() n = n + 1 return n end, function() return n end
end
local inc, get = counter()
local inc2, get2 = counter()
inc() inc() inc2()
emit(get(), get2())
`},
	{Name: "numeric-for-closures", Src: `
local fs = {}
local shared = 0
for i = 1, 3 do
  local j = i * 10
  fs[i] = function() shared = shared + 1 j = j + 1 return i, j, shared end
end
emit(fs[1]()) emit(fs[1]()) emit(fs[2]()) emit(fs[3]())
`},
	{Name: "while-closures-break", Src: `
local fs = {}
local i = 0
while true do
  i = i + 1
  local v = i
  fs[#fs + 1] = function() return v end
  if i >= 3 then break end
end
emit(fs[1](), fs[2](), fs[3](), i)
`},
	{Name: "repeat-scope", Src: `
local n = 0
repeat local done = n >= 2 n = n + 1 until done
emit(n)
local fs = {}
repeat
  local v = #fs
  fs[#fs + 1] = function() return v end
until v >= 2
emit(fs[1](), fs[2](), fs[3]())
`},
	{Name: "goto-continue-nested-break", Src: `
for i = 1, 3 do
  for j = 1, 3 do
    if j == 2 then goto continue end
    if i == 2 then break end
    emit(i, j)
    ::continue::
  end
end
`},
	{Name: "goto-backward-fresh-locals", Src: `
local fs = {}
local k = 0
::top::
local v = k
fs[#fs + 1] = function() v = v + 100 return v end
k = k + 1
if k < 3 then goto top end
emit(fs[1](), fs[2](), fs[3]())
emit(fs[1]())
`},
	{Name: "goto-out-of-nested-blocks", Src: `
local n = 0
do
  while true do
    do
      n = n + 1
      if n > 2 then goto out end
    end
  end
end
::out::
emit(n)
`},
	{Name: "generic-for-closures", Src: `
local fs = {}
for i, v in ipairs({"a", "b", "c"}) do
  fs[i] = function() return i, v end
end
emit(fs[1]()) emit(fs[2]()) emit(fs[3]())
`},
	{Name: "generic-for-closures-modify", Src: `
local fs = {}
for i, v in ipairs({"a", "b"}) do
  local w = v
  fs[#fs + 1] = function() w = w .. "!" return w end
end
emit(fs[1]()) emit(fs[1]()) emit(fs[2]())
`},
	{Name: "varargs-basic", Src: `
local function f(...)
  local a, b = ...
  local t = {...}
  local n = select('#', ...)
  return n, a, b, t[1], t[n]
end
emit(f()) emit(f(1)) emit(f(1, 2, 3)) emit(f(nil, nil))
emit((f(1, 2)))
emit(select(2, "a", "b", "c")) emit(select(-1, "a", "b", "c")) emit(select('#'))
emit(pcall(select, 0))
emit(pcall(select, -4, 1, 2, 3))
`},
	{Name: "parendots", Src: `
local function f(...) return (...) end
emit(f()) emit(f(1)) emit(f(1, 2, 3))
local function g(...) return select('#', (...)), select('#', ...) end
emit(g()) emit(g(1, 2))
`},
	{Name: "excess-expressions", Src: `
local function e(k) emit("eval", k) return k end
local a = 1, e("local")
local b, c
b, c = 1, 2, e("assign")
emit(a, b, c)
for i in function(s, c) if c < 1 then return c + 1 end end, nil, 0, nil, e("for") do emit("iter", i) end
`},
	{Name: "many-locals", Src: `
local v1 = 1
local v2 = 2
local v3 = 3
local v4 = 4
local v5 = 5
local v6 = 6
local v7 = 7
local v8 = 8
local v9 = 9
local v10 = 10
local v11 = 11
local v12 = 12
local v13 = 13
local v14 = 14
local v15 = 15
local v16 = 16
local v17 = 17
local v18 = 18
local v19 = 19
local v20 = 20
local v21 = 21
local v22 = 22
local v23 = 23
local v24 = 24
local v25 = 25
local v26 = 26
local v27 = 27
local v28 = 28
local v29 = 29
local v30 = 30
local v31 = 31
local v32 = 32
local v33 = 33
local v34 = 34
local v35 = 35
local v36 = 36
local v37 = 37
local v38 = 38
local v39 = 39
local v40 = 40
local function touch() return v1, v8, v15, v22, v29, v36 end
v1, v40 = v40, v1
v4, v37 = v37, v4
v7, v34 = v34, v7
v10, v31 = v31, v10
v13, v28 = v28, v13
v16, v25 = v25, v16
v19, v22 = v22, v19
emit(v1 + v2 + v3 + v4 + v5 + v6 + v7 + v8 + v9 + v10 + v11 + v12 + v13 + v14 + v15 + v16 + v17 + v18 + v19 + v20 + v21 + v22 + v23 + v24 + v25 + v26 + v27 + v28 + v29 + v30 + v31 + v32 + v33 + v34 + v35 + v36 + v37 + v38 + v39 + v40)
emit(touch())
emit(v1, v2, v3, v4, v5, v6, v7, v8, v9, v10, v11, v12)
do local w1, w2, w3 = v1 + v2, v3 * v4, v5 - v6 emit(w1, w2, w3) end
local z
emit(z, v40, v39)
`},
	{Name: "chunk-varargs", Src: `
local a, b = ...
emit(a, b, select('#', ...))
local function f() return a end
emit(f())
return ..., "tail"
`, Args: []interface{}{int64(1), nil, "x"}},
	{Name: "table-constructors", Src: `
local function two() return 1, 2 end
local t = {two(), two()}
emit(#t, t[1], t[2], t[3])
local u = {two(), (two())}
emit(#u)
local v = {x = 1, "b", [10] = "c", y = 2, "d"}
emit(v[1], v[2], v[10], v.x, v.y)
local w = {[1 + 1] = "k", f = function() return "ff" end, {nested = true}}
emit(w[2], w.f(), w[1].nested)
local e = {two(), nil}
emit(e[1], e[2])
`},
	{Name: "methods-and-self", Src: `
local Account = {}
Account.__index = Account
function Account.new(b) return setmetatable({balance = b}, Account) end
function Account:deposit(v) self.balance = self.balance + v return self end
function Account:get() return self.balance end
local a = Account.new(10)
emit(a:deposit(5):deposit(1):get())
emit(a.get(a), Account.get(a))
emit(pcall(a.deposit, nil, 1))
`},
	{Name: "inheritance-chain", Src: `
local Base = {} Base.__index = Base
function Base:name() return "base" end
function Base:hello() return "hello " .. self:name() end
local Derived = setmetatable({}, {__index = Base}) Derived.__index = Derived
function Derived:name() return "derived" end
local d = setmetatable({}, Derived)
local b = setmetatable({}, Base)
emit(d:hello(), b:hello(), rawget(d, "hello"), rawget(Derived, "hello"))
`},
	{Name: "newindex-proxy", Src: `
local store = {}
local p = setmetatable({}, {__index = store, __newindex = function(t, k, v) emit("set", k, v) rawset(store, k, v) end})
p.a = 1
p.a = 2
emit(p.a, rawget(p, "a"))
rawset(p, "a", 3)
p.a = 4
emit(p.a, store.a)
`},
	{Name: "call-metamethod", Src: `
local c = setmetatable({}, {__call = function(self, ...) return select('#', ...), ... end})
emit(c()) emit(c(1, nil)) emit((c("x")))
emit(pcall(c, 1, 2))
local t = {c = c}
emit(t.c("m"))
emit(t:c("m") == 2)
`},
	{Name: "comparison-metamethods", Src: `
local mt = {}
mt.__eq = function(a, b) emit("eq") return a.v == b.v end
mt.__lt = function(a, b) emit("lt") return a.v < b.v end
mt.__le = function(a, b) emit("le") return a.v <= b.v end
local function V(v) return setmetatable({v = v}, mt) end
local a, b, c = V(1), V(2), V(1)
emit(a == c) emit(a == a) emit(a ~= b) emit(a < b) emit(a > b) emit(a <= c) emit(a >= b)
emit(a == 1) emit(pcall(function() return a < 1 end))
`},
	{Name: "arith-metamethods", Src: `
local mt = {}
mt.__add = function(a, b) return "add" end
mt.__concat = function(a, b) return "cat" end
mt.__len = function(a) return 42 end
mt.__unm = function(a) return "neg" end
mt.__idiv = function(a, b) return "idiv" end
mt.__band = function(a, b) return "band" end
local o = setmetatable({}, mt)
emit(o + 1, 1 + o, o .. "x", "x" .. o, 1 .. o, #o, -o, o // 2, 3 & o)
emit(pcall(function() return o - 1 end))
emit(pcall(function() return o * o end))
`},
	{Name: "global-metatable", Src: `
setmetatable(_G, {__index = function(_, k) return "G:" .. k end, __newindex = function(t, k, v) emit("newglobal", k) rawset(t, k, v) end})
emit(undefined_name)
newname = 5
newname = 6
emit(newname)
setmetatable(_G, nil)
emit(undefined_name)
`},
	{Name: "error-values", Src: `
emit(pcall(error))
emit(pcall(error, nil))
emit(pcall(error, {code = 1}))
emit(pcall(error, "msg", 0))
local ok, e = pcall(function() error("lvl1") end)
emit(ok, e)
ok, e = pcall(function() error("lvl0", 0) end)
emit(ok, e)
local function thrower() error("lvl2", 2) end
ok, e = pcall(function()
  thrower()
end)
emit(ok, e)
emit(select('#', pcall(function() return end)))
emit(pcall(function() return 1, 2, 3 end))
emit(pcall(error, 42))
emit(pcall(error, true))
`},
	{Name: "error-rethrow-nested", Src: `
local ok, e = pcall(function()
  local ok2, e2 = pcall(error, {1})
  error(e2)
end)
emit(ok, type(e), e[1])
ok, e = pcall(function()
  local ok2, e2 = pcall(function() error("inner", 0) end)
  emit(ok2, e2)
  error("outer:" .. e2, 0)
end)
emit(ok, e)
`},
	{Name: "error-in-metamethod", Src: `
local t = setmetatable({}, {__index = function(t, k) error({key = k}) end})
local ok, e = pcall(function() return t.missing end)
emit(ok, e.key)
local u = setmetatable({}, {__newindex = function(t, k, v) error("ro", 0) end})
emit(pcall(function() u.x = 1 end))
emit(rawget(u, "x"))
`},
	{Name: "xpcall-handler", Src: `
local function h(m) emit("h", m) return "handled", "extra" end
emit(xpcall(function() error("boom", 0) end, h))
emit(xpcall(function(a, b) return a + b end, h, 1, 2))
emit(xpcall(function() error({}) end, function(m) return type(m) end))
emit(xpcall(function() local x = nil return x.y end, function(m) return type(m) end))
`},
	{Name: "assert", Src: `
emit(assert(1, "m"))
emit(pcall(assert, false, "m"))
emit(pcall(assert, nil))
emit(pcall(assert))
emit(select('#', assert(1, 2, 3)))
local e = {}
emit(select(2, pcall(assert, false, e)) == e)
`},
	{Name: "tostring-tonumber", Src: `
emit(tostring(12), tostring(nil), tostring(true), tostring("s"), tostring(-0))
emit(tonumber("10"), tonumber("0x10"), tonumber("  5  "), tonumber("5x"), tonumber(""), tonumber("1e1"), tonumber(nil))
emit(tostring(setmetatable({}, {__tostring = function() return "custom" end})))
emit(pcall(tostring))
emit(math.type(1), math.type(1.0), math.type("1"), math.tointeger(3.0), math.tointeger(3.5))
`},
	{Name: "number-semantics", Src: `
emit(1 == 1.0, math.type(2 ^ 2), 7 // 2, 7.0 // 2, 7 % -3, -7 % 3, 7 / 2, 3 | 4, 1 << 62, 1 << 63, 1 << 64)
emit("10" + 1, "3" * "4", 10 .. 20, "0x10" + 0, "1e1" + 0, " 5 " + 0)
emit(math.maxinteger + 1 == math.mininteger, math.maxinteger * 2)
emit(pcall(function() return 1 // 0 end))
emit(pcall(function() return 1 % 0 end))
emit(pcall(function() return 1.5 | 1 end))
emit(pcall(function() return "a" + 1 end))
emit(3.0 | 0, 2 ^ 52 | 0, "7" // 2)
`},
	{Name: "string-methods", Src: `
local s = "Hello"
emit(s:len(), #s, s:upper(), s:lower(), s:sub(2), s:sub(-3, -2), s:sub(0), s:sub(10), s:rep(2, "-"), s:reverse(), s:byte())
emit(("x"):rep(0), ("abc"):sub(2, 2), #"a\0b", "a\0b")
emit("a" < "b", "abc" < "abd", "" < "a", "a" < "ab", "a" <= "a", "b" > "a")
emit(pcall(function() return "a" < 1 end))
`},
	{Name: "table-functions", Src: `
local t = {}
table.insert(t, "a")
table.insert(t, "b")
emit(#t)
emit(table.remove(t))
emit(#t)
emit(table.unpack(t))
emit(table.unpack({1, 2, 3}, 2))
emit(table.unpack({1, 2, 3}, 2, 3))
emit(table.pack().n, table.pack(nil, nil).n)
emit(table.remove({}))
emit(table.unpack({}, 1, 3))
`},
	{Name: "multiple-assignment-manual", Src: `
local i = 3
local a = {}
i, a[i] = i + 1, 20
emit(i, a[3], a[4])
local x, y = 1, 2
x, y = y, x
emit(x, y)
local p, q, r = 1
emit(p, q, r)
local function f() return 1, 2, 3 end
local s, t = f()
emit(s, t)
s, t, r = 0, f()
emit(s, t, r)
s, t = f(), 10
emit(s, t)
`},
	{Name: "numeric-for-semantics", Src: `
local n = 3
for i = 1, n do n = 10 emit(i) end
for i = 3, 1, -1 do emit(i) end
for i = 1, 0 do emit("never") end
for i = 1.0, 2 do emit(i) end
for i = 1, 2, 0.5 do emit(i) end
emit(pcall(function() for i = 1, 10, 0 do end end))
emit(pcall(function() for i = {}, 2 do end end))
for i = math.maxinteger - 1, math.maxinteger do emit(i) end
for i = math.mininteger, math.mininteger + 1 do emit(i) end
for i = 1, 3 do local i = i * 2 emit(i) end
`},
	{Name: "key-normalisation", Src: `
local t = {}
t[1] = "int"
t[1.0] = "float"
t["1"] = "str"
emit(t[1], t["1"], #t)
t[2.5] = "frac"
emit(t[2.5], t[5 / 2])
local k = {}
t[k] = "tab"
emit(t[k], t[{}])
t[true] = "T"
emit(t[true], t[false], t[1 == 1])
emit(next({}, nil))
emit(next({10}))
`},
	{Name: "coroutine-basics", Src: `
local function gen(n) return coroutine.wrap(function() for i = 1, n do coroutine.yield(i) end end) end
for v in gen(3) do emit(v) end
local co = coroutine.create(function(a, b)
  emit("start", a, b)
  local c = coroutine.yield(a + b)
  emit("got", c)
  local d, e = coroutine.yield(c * 2)
  emit("got2", d, e)
  return "done", 99
end)
emit(coroutine.resume(co, 1, 2))
emit(coroutine.status(co))
emit(coroutine.resume(co, 10))
emit(coroutine.resume(co, "x", "y"))
emit(coroutine.status(co))
emit(coroutine.resume(co))
emit(coroutine.isyieldable())
`},
	{Name: "coroutine-closures-and-errors", Src: `
local log = {}
local co = coroutine.create(function()
  local x = 0
  local function bump() x = x + 1 return x end
  coroutine.yield(bump)
  coroutine.yield(x)
  error({reason = "stop"})
end)
local ok, bump = coroutine.resume(co)
emit(ok, bump())
emit(bump())
emit(coroutine.resume(co))
local ok2, e = coroutine.resume(co)
emit(ok2, e.reason, coroutine.status(co))
emit(coroutine.resume(co))
`},
	{Name: "nested-closure-levels", Src: `
local function outer()
  local a = 1
  local function mid()
    local b = 10
    local function inner() a = a + 1 b = b + 1 return a + b end
    return inner
  end
  return mid(), mid(), function() return a end
end
local i1, i2, geta = outer()
emit(i1()) emit(i1()) emit(i2()) emit(geta())
`},
	{Name: "mutual-recursion-tailcalls", Src: `
local even, odd
function even(n) if n == 0 then return true end return odd(n - 1) end
function odd(n) if n == 0 then return false end return even(n - 1) end
emit(even(10), odd(7))
emit(even(2000))
`},
	{Name: "method-on-call-result", Src: `
local function mk() emit("mk") return {v = 5, get = function(self, d) return self.v + d end} end
emit(mk():get(1))
emit(({f = function(self) return self ~= nil end}):f())
local s = {inner = {deep = {val = "x"}}}
emit(s.inner.deep.val, s["inner"].deep["val"])
s.inner.deep.val = "y"
emit(s.inner.deep.val)
function s.inner.f(a) return a end
function s.inner.deep:m(a) return self.val, a end
emit(s.inner.f(1), s.inner.deep:m(2))
`},
	{Name: "truthiness-and-or", Src: `
emit(0 and "zero-true", "" and "empty-true", nil and 1, false or nil, 1 and 2, nil or false, false and error("never"), 1 or error("never"))
local x
x = x or "default"
emit(x)
x = x or "other"
emit(x)
emit(not nil, not 0, not not "s", nil == false)
if 0 then emit("0 is true") end
if not nil then emit("not nil") end
`},
	{Name: "comparison-errors", Src: `
emit(pcall(function() return {} < {} end))
emit(pcall(function() return 1 < "2" end))
emit(pcall(function() return nil < 1 end))
emit(pcall(function() return {} <= 1 end))
emit({} == {}, 1 == "1", "a" == "a", nil == nil)
local t = {}
emit(t == t, rawequal(t, t), rawequal(t, {}), rawequal("a", "a"), rawequal(1, 1.0))
`},
	{Name: "const-and-close", Src: `
local c <const> = 5
local function f() return c end
emit(c, f())
do
  local x <close> = setmetatable({}, {__close = function(o, e) emit("close", e) end})
  emit("body")
end
emit("after")
local ok, err = pcall(function()
  local y <close> = setmetatable({}, {__close = function(o, e) emit("close-y", e) end})
  error("fail", 0)
end)
emit(ok, err)
`},
	{Name: "ipairs-semantics", Src: `
for i, v in ipairs({1, 2, nil, 4}) do emit(i, v) end
for i, v in ipairs(setmetatable({}, {__index = function(t, i) if i <= 3 then return i * 2 end end})) do emit(i, v) end
for i, v in ipairs({}) do emit("never") end
emit(pcall(ipairs))
local t = {10, 20, 30}
for i, v in ipairs(t) do if i == 1 then t[3] = nil end emit(i, v) end
`},
	{Name: "precedence", Src: `
emit(2 + 3 * 4 ^ 2 / 2, -2 ^ 2, not 1 == 2, 1 .. 2 .. 3, 2 ^ 3 ^ 2, "a" .. "b" == "ab", 1 + 2 < 4 and 5 or 6)
local x = 3
emit(#"abc" + 1, -x ^ 2, 2 * -3, 1 - -1, ~5 & 3 | 8 ~ 1 << 2, 1 + 2 .. 3 + 4, 2 ^ -1, - - x, not not x)
emit(1 < 2 == true, 1 == 1 ~= false, "x" .. 1 + 2, 7 // 2 * 2 + 7 % 2, (2 + 3) * 4, 2 + (3 * 4))
`},
	{Name: "long-elseif-and-nested-functions", Src: `
local function classify(n)
  if n < 0 then return "neg"
  elseif n == 0 then return "zero"
  elseif n < 10 then return "small"
  elseif n < 100 then return "medium"
  else return "large" end
end
emit(classify(-1), classify(0), classify(5), classify(50), classify(500))
local function compose(f, g) return function(...) return f(g(...)) end end
local inc = function(x) return x + 1 end
local dbl = function(x) return x * 2 end
emit(compose(inc, dbl)(5), compose(dbl, inc)(5), compose(compose(inc, inc), dbl)(1))
`},
	{Name: "uninitialised-after-scope-reuse", Src: `
do local a, b, c = 1, 2, 3 end
local x, y, z
emit(x, y, z)
do local a = {} local b = "s" end
local p
emit(p)
for i = 1, 2 do
  local fresh
  emit(fresh)
  fresh = i
end
local function f()
  local u
  if false then u = 1 end
  return u
end
emit(f())
`},
	{Name: "vararg-adjust-in-middle", Src: `
local function three() return 1, 2, 3 end
emit(three(), three())
emit((three()))
emit(three(), nil)
local t = {three(), three(), n = three()}
emit(t[1], t[2], t[3], t[4], t.n)
emit(#{three(), three()})
emit(three() + 10, -three(), three() .. "")
`},
	{Name: "while-condition-side-effects", Src: `
local n = 0
local function next_n() n = n + 1 return n end
while next_n() < 4 do emit("body", n) end
emit(n)
local k = 0
repeat k = k + 1 until (function() return k >= 3 end)()
emit(k)
`},
	{Name: "self-referential-tables", Src: `
local t = {}
t.self = t
t[t] = "me"
emit(t.self.self.self == t, t[t.self], t == t.self)
local a, b = {}, {}
a.other, b.other = b, a
emit(a.other.other == a, a.other == b)
`},
	{Name: "rawlen-rawequal-type", Src: `
emit(rawlen({1, 2}), rawlen("abc"), pcall(rawlen, 5))
emit(type(nil), type(1), type("s"), type({}), type(emit), type(function() end), type(coroutine.create(function() end)), type(true))
emit(pcall(type))
local t = setmetatable({1, 2, 3}, {__len = function() return 99 end})
emit(#t, rawlen(t))
`},
	{Name: "getmetatable-setmetatable", Src: `
local mt = {}
local t = setmetatable({}, mt)
emit(getmetatable(t) == mt, getmetatable({}), getmetatable(1), getmetatable("").__index == string)
setmetatable(t, nil)
emit(getmetatable(t))
emit(pcall(setmetatable, 1, {}))
emit(pcall(setmetatable, {}, 1))
emit(pcall(setmetatable, {}))
local p = setmetatable({}, {__metatable = false})
emit(getmetatable(p))
emit(pcall(setmetatable, p, {}))
`},
	{Name: "integer-float-table-keys-in-loops", Src: `
local t = {}
for i = 1, 3 do t[i] = i * i end
for i = 1.0, 3.0 do t[i] = t[i] + 0.5 end
emit(t[1], t[2], t[3], #t)
local s = 0
for i = 3, 1, -1 do s = s * 10 + t[i] end
emit(s)
`},
}
