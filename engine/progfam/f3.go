package progfam

import (
	"fmt"
	"strings"

	"verif/engine/prog"
)

// F3 — jumps.  Two families.
//
// F3-jumps-free: token strings (like F1) inside
//
//	n = 0  fs = {}
//	local function main() <tokens> return "done" end
//	emit("ret", main())  emit("n", n)  <call closures twice>
//
// F3-jumps-nested: a fixed skeleton of two nested loops (3 x 3 loop kinds)
// with labels top / ci (continue inner) / co (continue outer) / out and five
// statement slots filled from a 10 letter alphabet.
//
// Programs that do not compile by the manual's rules (goto without visible
// label, goto into the scope of a local, break outside a loop) are not
// canonical (nil).  Jumps over a local to a label that ends a repeat body
// are excluded too (the scope of such a local extends into the until
// expression; the manual is not explicit about the label rule there).
var f3Tok = []string{
	"E",        // emit(pos)
	"CL",       // local a<pos> = 10*pos; fs[#fs+1] = function() a = a + 1 return a end
	"L1", "L2", // ::l1::  ::l2::
	"G1", "G2", // n = n + 1  if n < 5 then goto lK end
	"U1", "U2", // goto lK
	"BRK",  // break
	"CBRK", // if n >= 3 then break end
	"RET",  // return pos      (do return pos end when not last)
	"CRET", // if n >= 4 then return pos end
	"WHILE", "FOR", "REPEAT", "DO", "IF", "ELSE", "END",
}

func f3(th bool) []Fam {
	maxLen := 4
	slots := 4
	if th {
		maxLen = 5
		slots = 5
	}
	a := len(f3Tok)
	na := len(f3Slot)
	return []Fam{
		{
			Name: "F3-jumps-free",
			Size: seqSize(a, maxLen),
			At:   func(i uint64) *prog.Prog { return f3Build(seqIndex(i, a, maxLen)) },
		},
		{
			Name: "F3-jumps-nested",
			Size: 9 * pow(na, slots),
			At: func(i uint64) *prog.Prog {
				d := dec{i}
				ko, ki := d.n(3), d.n(3)
				s := make([]int, 5)
				for k := 5 - slots; k < 5; k++ {
					s[k] = d.n(na)
				}
				return f3Nested(ko, ki, s)
			},
		},
	}
}

// shared statement builders

func (b g) closureLocal(pos int) []prog.Stmt {
	a := fmt.Sprintf("a%d", pos)
	return []prog.Stmt{
		b.Local1(a, b.i(10*pos)),
		b.push("fs", b.fn(nil, false, b.Set(a, b.Bin("+", b.n(a), b.i(1))), b.Return(b.n(a)))),
	}
}

func (b g) incN() prog.Stmt { return b.Set("n", b.Bin("+", b.n("n"), b.i(1))) }

func (b g) guardedGoto(label string) []prog.Stmt {
	return []prog.Stmt{b.incN(), b.If(b.Bin("<", b.n("n"), b.i(5)), []prog.Stmt{b.Goto(label)}, nil)}
}

func (b g) loopFrame(st *blockStack, kind string) {
	switch kind {
	case "WHILE":
		st.open("while", func(f *bframe) []prog.Stmt {
			body := append([]prog.Stmt{b.incN()}, f.body...)
			return []prog.Stmt{b.While(b.Bin("<", b.n("n"), b.i(8)), body...)}
		})
	case "FOR":
		st.open("for", func(f *bframe) []prog.Stmt {
			return []prog.Stmt{b.NumFor("i", b.i(1), b.i(2), nil, f.body...)}
		})
	case "REPEAT":
		st.open("repeat", func(f *bframe) []prog.Stmt {
			body := append([]prog.Stmt{b.incN()}, f.body...)
			return []prog.Stmt{b.Repeat(body, b.Bin(">=", b.n("n"), b.i(8)))}
		})
	}
}

func (b g) f3Wrap(inner []prog.Stmt) []prog.Stmt {
	if n := len(inner); n == 0 || !isReturn(inner[n-1]) {
		inner = append(inner, b.Return(b.s("done")))
	}
	return []prog.Stmt{
		b.Set("n", b.i(0)), b.Set("fs", b.List()),
		b.LocalFunc("main", b.Func(nil, false, inner...)),
		b.Emit(b.s("ret"), b.CallN("main")),
		b.Emit(b.s("n"), b.n("n")),
		b.callAll("fs"), b.callAll("fs"),
	}
}

func isReturn(s prog.Stmt) bool { _, ok := s.(*prog.Return); return ok }

func f3Build(toks []int) *prog.Prog {
	if toks == nil {
		return nil
	}
	b := newG()
	st := newBlockStack()
	names := make([]string, len(toks))
	seen := map[string]bool{}
	for pos, t := range toks {
		tok := f3Tok[t]
		names[pos] = tok
		switch tok {
		case "E":
			st.add(b.Emit(b.i(pos + 1)))
		case "CL":
			st.add(b.closureLocal(pos + 1)...)
		case "L1", "L2":
			if seen[tok] {
				return nil
			}
			seen[tok] = true
			st.add(b.Label("l" + tok[1:]))
		case "G1", "G2":
			st.add(b.guardedGoto("l" + tok[1:])...)
		case "U1", "U2":
			st.add(b.Goto("l" + tok[1:]))
		case "BRK":
			if !st.inLoop() {
				return nil
			}
			st.add(b.Break())
		case "CBRK":
			if !st.inLoop() {
				return nil
			}
			st.add(b.If(b.Bin(">=", b.n("n"), b.i(3)), []prog.Stmt{b.Break()}, nil))
		case "RET":
			// fixReturns wraps it into do ... end when it is not last in its block
			st.add(b.Return(b.i(pos + 1)))
		case "CRET":
			st.add(b.If(b.Bin(">=", b.n("n"), b.i(4)), []prog.Stmt{b.Return(b.i(pos + 1))}, nil))
		case "WHILE", "FOR", "REPEAT":
			b.loopFrame(st, tok)
		case "DO":
			st.open("do", func(f *bframe) []prog.Stmt { return []prog.Stmt{b.Do(f.body...)} })
		case "IF":
			st.open("if", func(f *bframe) []prog.Stmt {
				cond := b.Bin("==", b.Bin("%", b.n("n"), b.i(2)), b.i(0))
				if f.els {
					return []prog.Stmt{b.If(cond, nonNil(f.then), nonNil(f.body))}
				}
				return []prog.Stmt{b.If(cond, nonNil(f.body), nil)}
			})
		case "ELSE":
			f := st.top()
			if f.kind != "if" || f.els {
				return nil
			}
			fixReturns(b, f.body)
			f.els, f.then, f.body = true, f.body, nil
		case "END":
			if pos == len(toks)-1 {
				return nil
			}
			fixReturns(b, st.top().body)
			if !st.closeTop() {
				return nil
			}
		}
	}
	for len(st.frames) > 1 {
		fixReturns(b, st.top().body)
		st.closeTop()
	}
	inner := st.frames[0].body
	fixReturns(b, inner)
	body := b.f3Wrap(inner)
	if !ValidJumps(body) {
		return nil
	}
	p := b.ProgOf(body)
	p.Key = "[" + strings.Join(names, " ") + "]"
	return p
}

// fixReturns wraps every return that is not the last statement of its block
// into do ... end (a return must end its block).
func fixReturns(b g, body []prog.Stmt) {
	for i, s := range body {
		if isReturn(s) && i != len(body)-1 {
			body[i] = b.Do(s)
		}
	}
}

var f3Slot = []string{"E", "CL", "Gci", "Gco", "Gout", "Gtop", "Uci", "Uco", "CBRK", "CRET"}
var f3Loop = []string{"WHILE", "FOR", "REPEAT"}

func f3Nested(ko, ki int, slots []int) *prog.Prog {
	b := newG()
	st := newBlockStack()
	ok := true
	fill := func(k int) {
		pos := k + 1
		switch f3Slot[slots[k]] {
		case "E":
			st.add(b.Emit(b.i(pos)))
		case "CL":
			st.add(b.closureLocal(pos)...)
		case "Gci":
			st.add(b.guardedGoto("ci")...)
		case "Gco":
			st.add(b.guardedGoto("co")...)
		case "Gout":
			st.add(b.guardedGoto("out")...)
		case "Gtop":
			st.add(b.guardedGoto("top")...)
		case "Uci":
			st.add(b.Goto("ci"))
		case "Uco":
			st.add(b.Goto("co"))
		case "CBRK":
			if !st.inLoop() {
				ok = false
			}
			st.add(b.If(b.Bin(">=", b.n("n"), b.i(3)), []prog.Stmt{b.Break()}, nil))
		case "CRET":
			st.add(b.If(b.Bin(">=", b.n("n"), b.i(4)), []prog.Stmt{b.Return(b.i(pos))}, nil))
		}
	}
	st.add(b.Label("top"))
	fill(0)
	b.loopFrame(st, f3Loop[ko])
	fill(1)
	b.loopFrame(st, f3Loop[ki])
	fill(2)
	fill(3)
	st.add(b.Label("ci"))
	st.closeTop()
	fill(4)
	st.add(b.Label("co"))
	st.closeTop()
	st.add(b.Emit(b.s("after")))
	st.add(b.Label("out"))
	if !ok {
		return nil
	}
	body := b.f3Wrap(st.frames[0].body)
	if !ValidJumps(body) {
		return nil
	}
	p := b.ProgOf(body)
	ns := make([]string, len(slots))
	for k, s := range slots {
		ns[k] = f3Slot[s]
	}
	p.Key = fmt.Sprintf("outer=%s inner=%s slots=[%s]", f3Loop[ko], f3Loop[ki], strings.Join(ns, " "))
	return p
}
