package progfam

import (
	"fmt"

	"verif/engine/prog"
)

// F2 — call protocol: the full product
//
//	callee kind {local function, method o:m, table field t.f, global function}
//	x params p in 0..2  x vararg?  x fixed results r in 0..3
//	x result tail {none, ..., g(), (g())}
//	x fixed args a in 0..3  x arg tail {none, ..., g(), (g())}
//	x receiving context (17)  x chunk arguments {(), (41), (nil,42), (41,42,43)}
//
// where g() emits "g" and returns 7, 8.  The callee emits what it received
// (parameters, select('#', ...), ...).  Chunk arguments only vary when the
// argument tail is `...` (otherwise they cannot be observed).
var f2Ctx = []string{"stat", "local1", "local2", "local3", "assign", "argmid", "arglast", "tabmid", "tablast",
	"tailcall", "paren", "selectn", "retmid", "retlast", "nested", "operand", "forward"}
var f2Kind = []string{"local", "method", "field", "global"}
var f2Tail = []string{"none", "dots", "call", "parencall"}
var f2ChunkArgs = [][]interface{}{{}, {int64(41)}, {nil, int64(42)}, {int64(41), int64(42), int64(43)}}

func f2(th bool) []Fam {
	radices := []int{len(f2Ctx), 4, 4, 4, 4, 3, 2, len(f2Kind), len(f2ChunkArgs)}
	return []Fam{{
		Name: "F2-call-protocol",
		Size: prod(radices...),
		At: func(i uint64) *prog.Prog {
			d := dec{i}
			ctx := d.n(len(f2Ctx))
			a := d.n(4)
			atail := d.n(4)
			r := d.n(4)
			rtail := d.n(4)
			p := d.n(3)
			va := d.n(2) == 1
			kind := d.n(len(f2Kind))
			ca := d.n(len(f2ChunkArgs))
			if !th && kind >= 2 {
				return nil // quick: callee kinds local function and method only
			}
			if rtail == 1 && !va {
				return nil // `...` outside a vararg function does not compile
			}
			if atail != 1 && ca != 0 {
				return nil // chunk arguments unobservable: duplicate
			}
			return f2Build(ctx, a, atail, r, rtail, p, va, kind, ca)
		},
	}}
}

func f2Build(ctx, a, atail, r, rtail, p int, va bool, kind, ca int) *prog.Prog {
	b := newG()
	var body []prog.Stmt
	add := func(s ...prog.Stmt) { body = append(body, s...) }
	tail := func(t int) prog.Expr {
		switch t {
		case 1:
			return b.Vararg()
		case 2:
			return b.CallN("g")
		case 3:
			return b.Paren(b.CallN("g"))
		}
		return nil
	}
	// local function g() emit("g") return 7, 8 end
	add(b.LocalFunc("g", b.Func(nil, false, b.Emit(b.s("g")), b.Return(b.i(7), b.i(8)))))

	// callee
	params := []string{"a", "b"}[:p]
	em := []prog.Expr{b.s("f")}
	for _, q := range params {
		em = append(em, b.n(q))
	}
	if va {
		em = append(em, b.CallN("select", b.s("#"), b.Vararg()), b.Vararg())
	}
	var rets []prog.Expr
	for k := 0; k < r; k++ {
		rets = append(rets, b.i(101+k))
	}
	if t := tail(rtail); t != nil {
		rets = append(rets, t)
	}
	fbody := []prog.Stmt{b.Emit(em...), b.Return(rets...)}
	switch f2Kind[kind] {
	case "local":
		add(b.LocalFunc("f", b.Func(params, va, fbody...)))
	case "global":
		add(b.FuncStat([]string{"f"}, "", b.Func(params, va, fbody...)))
	case "field":
		add(b.Local1("o", b.Table()))
		add(b.FuncStat([]string{"o", "f"}, "", b.Func(params, va, fbody...)))
	case "method":
		add(b.Local1("o", b.Table()))
		add(b.FuncStat([]string{"o"}, "m", b.Func(append([]string{"self"}, params...), va, fbody...)))
	}
	call := func(args ...prog.Expr) prog.Expr {
		switch f2Kind[kind] {
		case "field":
			return b.Call(b.Dot(b.n("o"), "f"), args...)
		case "method":
			return b.Method(b.n("o"), "m", args...)
		}
		return b.CallN("f", args...)
	}
	mkArgs := func() []prog.Expr {
		var args []prog.Expr
		for k := 0; k < a; k++ {
			args = append(args, b.i(1+k))
		}
		if t := tail(atail); t != nil {
			args = append(args, t)
		}
		return args
	}
	theCall := func() prog.Expr { return call(mkArgs()...) }
	wrap := func(rets ...prog.Expr) {
		// local function w(...) return <rets> end  emit("w", w(...))
		add(b.LocalFunc("w", b.Func(nil, true, b.Return(rets...))))
		add(b.Emit(b.s("w"), b.CallN("w", b.Vararg())))
	}
	tfields := func(n int) []prog.Expr {
		out := []prog.Expr{b.s("t")}
		for k := 1; k <= n; k++ {
			out = append(out, b.Index(b.n("t"), b.i(k)))
		}
		return out
	}
	switch f2Ctx[ctx] {
	case "stat":
		add(b.CallS(theCall()))
	case "local1", "local2", "local3":
		names := []string{"v1", "v2", "v3"}[:ctx]
		add(b.Local(names, theCall()))
		em := []prog.Expr{b.s("r")}
		for _, n := range names {
			em = append(em, b.n(n))
		}
		add(b.Emit(em...))
	case "assign":
		add(b.Local1("t", b.Table()))
		add(b.Assign([]prog.Expr{b.n("x"), b.Dot(b.n("t"), "k")}, theCall()))
		add(b.Emit(b.s("r"), b.n("x"), b.Dot(b.n("t"), "k")))
	case "argmid":
		add(b.Emit(b.s("m"), theCall(), b.s("z")))
	case "arglast":
		add(b.Emit(b.s("l"), theCall()))
	case "tabmid":
		add(b.Local1("t", b.List(theCall(), b.s("z"))))
		add(b.Emit(tfields(4)...))
	case "tablast":
		add(b.Local1("t", b.List(b.s("a"), theCall())))
		add(b.Emit(tfields(8)...))
	case "tailcall":
		wrap(theCall())
	case "paren":
		add(b.Emit(b.s("p"), b.Paren(theCall())))
	case "selectn":
		add(b.Emit(b.s("n"), b.CallN("select", b.s("#"), theCall())))
	case "retmid":
		wrap(theCall(), b.s("z"))
	case "retlast":
		wrap(b.s("a"), theCall())
	case "nested":
		add(b.Emit(b.s("l"), call(theCall())))
	case "operand":
		add(b.Emit(b.s("b"), b.Bin("==", theCall(), b.i(101))))
	case "forward":
		add(b.LocalFunc("w", b.Func(nil, true, b.Return(b.CallN("select", b.s("#"), b.Vararg()), b.Vararg()))))
		add(b.Emit(b.s("w"), b.CallN("w", theCall())))
	}
	pr := b.ProgOf(body)
	pr.Args = f2ChunkArgs[ca]
	pr.Key = fmt.Sprintf("kind=%s p=%d va=%v r=%d rtail=%s a=%d atail=%s ctx=%s chunkargs=%d",
		f2Kind[kind], p, va, r, f2Tail[rtail], a, f2Tail[atail], f2Ctx[ctx], ca)
	return pr
}
