// Package reftable is the reference model of a Lua 5.4 table used by check
// C03.  It is written from the reference manual only (§2.1 values and key
// normalisation, §3.4.4 equality, §3.4.7 border, §6.1 next/pairs) and imports
// nothing from golua.
//
//   - A table is a map from normalised keys to non-nil values.  "Any float
//     with integral value used as a key is converted to its respective
//     integer" (§2.1, §3.4.3 float->integer: only when the float has an exact
//     representation as an integer); nil and NaN are not keys.
//   - A border of t is n with (n == 0 or t[n] ~= nil) and t[n+1] == nil
//     (§3.4.7; math.maxinteger case irrelevant for the bounded alphabets).
//   - Traversal (§6.1 next): every present key exactly once, never an absent
//     one; fields may be assigned or cleared during the traversal but not
//     created.
package reftable

import (
	"fmt"
	"math"
	"sort"
	"strconv"
)

// Kind of a value used as a key.
type Kind uint8

const (
	KNil Kind = iota
	KInt
	KFloat
	KStr
	KBool
	KRef // table, function, ...: compared by identity class
)

// Key is a Lua value that may be used as a table key.  It is comparable: two
// normalised Keys are the same Go value iff they are raw-equal Lua values.
type Key struct {
	K  Kind
	I  int64
	F  uint64 // float bits (KFloat)
	S  string
	B  bool
	ID int // identity class (KRef)
}

func Int(i int64) Key { return Key{K: KInt, I: i} }

// Float keeps the bit pattern (+0.0 and -0.0 are different un-normalised
// values; both normalise to Int(0)).
func Float(f float64) Key { return Key{K: KFloat, F: math.Float64bits(f)} }
func Str(s string) Key    { return Key{K: KStr, S: s} }
func Bool(b bool) Key     { return Key{K: KBool, B: b} }
func Ref(class int) Key   { return Key{K: KRef, ID: class} }

// Fl returns the float of a KFloat key.
func (k Key) Fl() float64 { return math.Float64frombits(k.F) }

// IsNaN reports whether k is a float NaN.
func (k Key) IsNaN() bool { return k.K == KFloat && k.Fl() != k.Fl() }

// floatToInt implements "the float has an exact representation as an
// integer" (§3.4.3).
func floatToInt(f float64) (int64, bool) {
	if f != math.Floor(f) { // also false for NaN; ±Inf handled by range below
		return 0, false
	}
	if !(f >= -0x1p63 && f < 0x1p63) {
		return 0, false
	}
	return int64(f), true
}

// Norm returns the key actually used by a table for k.  ok is false when k
// cannot be a key (nil, NaN).
func Norm(k Key) (n Key, ok bool) {
	switch k.K {
	case KNil:
		return k, false
	case KFloat:
		f := k.Fl()
		if f != f {
			return k, false
		}
		if i, exact := floatToInt(f); exact {
			return Int(i), true
		}
	}
	return k, true
}

// Equal is primitive (raw) equality of two values, §3.4.4: numbers by
// mathematical value, strings by content, everything else by identity.
func Equal(a, b Key) bool {
	num := func(k Key) bool { return k.K == KInt || k.K == KFloat }
	if num(a) && num(b) {
		if a.IsNaN() || b.IsNaN() {
			return false
		}
		switch {
		case a.K == KInt && b.K == KInt:
			return a.I == b.I
		case a.K == KFloat && b.K == KFloat:
			return a.Fl() == b.Fl()
		case a.K == KInt:
			i, ok := floatToInt(b.Fl())
			return ok && i == a.I
		default:
			i, ok := floatToInt(a.Fl())
			return ok && i == b.I
		}
	}
	if a.K != b.K {
		return false
	}
	switch a.K {
	case KNil:
		return true
	case KStr:
		return a.S == b.S
	case KBool:
		return a.B == b.B
	case KRef:
		return a.ID == b.ID
	}
	return false
}

func (k Key) String() string {
	switch k.K {
	case KNil:
		return "nil"
	case KInt:
		return "i:" + strconv.FormatInt(k.I, 10)
	case KFloat:
		return "f:" + strconv.FormatFloat(k.Fl(), 'g', -1, 64)
	case KStr:
		return "s:" + strconv.Quote(k.S)
	case KBool:
		return strconv.FormatBool(k.B)
	case KRef:
		return "ref#" + strconv.Itoa(k.ID)
	}
	return "?"
}

// Table is the reference table: normalised key -> value.  Values are small
// positive integers; 0 stands for nil.
type Table struct {
	m map[Key]int
}

func New() *Table { return &Table{m: map[Key]int{}} }

// Get returns t[k] (0 = nil).  Reading with nil or NaN gives nil.
func (t *Table) Get(k Key) int {
	n, ok := Norm(k)
	if !ok {
		return 0
	}
	return t.m[n]
}

// Set performs the raw assignment t[k] = v.  ok is false (and nothing
// changes) when k is nil or NaN: the assignment must raise an error.
func (t *Table) Set(k Key, v int) (ok bool) {
	n, ok := Norm(k)
	if !ok {
		return false
	}
	if v == 0 {
		delete(t.m, n)
	} else {
		t.m[n] = v
	}
	return true
}

// Reset performs t[k] = v only if t[k] is non-nil and reports whether it was.
func (t *Table) Reset(k Key, v int) bool {
	if t.Get(k) == 0 {
		return false
	}
	t.Set(k, v)
	return true
}

// Has reports whether the raw key is present.
func (t *Table) Has(k Key) bool { return t.Get(k) != 0 }

// Len is the number of present keys.
func (t *Table) Len() int { return len(t.m) }

// IsBorder implements §3.4.7.
func (t *Table) IsBorder(n int64) bool {
	if n < 0 {
		return false
	}
	if n == 0 {
		return t.Get(Int(1)) == 0
	}
	if t.Get(Int(n)) == 0 {
		return false
	}
	if n == math.MaxInt64 {
		return true
	}
	return t.Get(Int(n+1)) == 0
}

// Borders lists the borders in 0..max (for messages).
func (t *Table) Borders(max int64) []int64 {
	var out []int64
	for n := int64(0); n <= max; n++ {
		if t.IsBorder(n) {
			out = append(out, n)
		}
	}
	return out
}

func less(a, b Key) bool {
	if a.K != b.K {
		return a.K < b.K
	}
	switch a.K {
	case KInt:
		return a.I < b.I
	case KFloat:
		return a.Fl() < b.Fl() || (a.Fl() == b.Fl() && a.F < b.F)
	case KStr:
		return a.S < b.S
	case KBool:
		return !a.B && b.B
	case KRef:
		return a.ID < b.ID
	}
	return false
}

// Keys returns the present keys in a fixed order (ints, floats, strings,
// booleans, references).
func (t *Table) Keys() []Key {
	ks := make([]Key, 0, len(t.m))
	for k := range t.m {
		ks = append(ks, k)
	}
	sort.Slice(ks, func(i, j int) bool { return less(ks[i], ks[j]) })
	return ks
}

// Clone copies the table.
func (t *Table) Clone() *Table {
	c := New()
	for k, v := range t.m {
		c.m[k] = v
	}
	return c
}

// Traversal checks the §6.1 contract of one next/pairs traversal that is
// interleaved with assignments to and clearings of existing fields (done on
// the Table directly by the caller).  A key that is present and not yet
// visited is owed; since no field may be created during the traversal the
// owed keys are exactly "present at the start, never cleared, not visited".
type Traversal struct {
	t       *Table
	visited map[Key]bool
}

func (t *Table) Traverse() *Traversal {
	return &Traversal{t: t, visited: map[Key]bool{}}
}

// Visit records that the traversal produced (k, v).  It returns the violated
// clause or "".
func (tr *Traversal) Visit(k Key, v int) string {
	n, ok := Norm(k)
	if !ok {
		return "trav-absent"
	}
	if n != k {
		// next must hand back the key as stored (an integer, not 2.0)
		return "trav-unnormalised-key"
	}
	if tr.visited[n] {
		return "trav-dup"
	}
	tr.visited[n] = true
	cur := tr.t.m[n]
	if cur == 0 {
		return "trav-absent"
	}
	if cur != v {
		return "trav-value"
	}
	return ""
}

// Visited reports whether k has been produced already.
func (tr *Traversal) Visited(k Key) bool { n, _ := Norm(k); return tr.visited[n] }

// VisitedKeys lists the visited keys in the fixed order.
func (tr *Traversal) VisitedKeys() []Key {
	ks := make([]Key, 0, len(tr.visited))
	for k := range tr.visited {
		ks = append(ks, k)
	}
	sort.Slice(ks, func(i, j int) bool { return less(ks[i], ks[j]) })
	return ks
}

// Owed lists the keys that are present now and have not been visited: at the
// end of the traversal this must be empty.
func (tr *Traversal) Owed() []Key {
	var out []Key
	for _, k := range tr.t.Keys() {
		if !tr.visited[k] {
			out = append(out, k)
		}
	}
	return out
}

// Clone copies the traversal bookkeeping onto table t (a clone of the
// traversed table).
func (tr *Traversal) Clone(t *Table) *Traversal {
	c := &Traversal{t: t, visited: map[Key]bool{}}
	for k := range tr.visited {
		c.visited[k] = true
	}
	return c
}

// Dump renders the table contents in the fixed key order.
func (t *Table) Dump(name func(Key) string) string {
	s := "{"
	for i, k := range t.Keys() {
		if i > 0 {
			s += " "
		}
		s += fmt.Sprintf("%s=%d", name(k), t.m[k])
	}
	return s + "}"
}
