package prog

import (
	"fmt"
	"strconv"
	"strings"
)

// Parse turns Lua source text (the subset the AST of this package covers:
// all of Lua 5.4's statements and expressions; numerals limited to decimal
// and hexadecimal integers and decimal floats) into a Prog.  It exists so that
// hand-written corpus programs can be given as text.  A mistake in this parser
// cannot cause a false alarm: the reference interpreter evaluates the
// resulting AST and the implementation under test runs a *rendering* of the
// same AST, never the original text.
func Parse(src string) (p *Prog, err error) { return ParseBase(src, 0) }

// ParseBase is Parse with node ids starting after base, so that the nodes of
// two programs that run in one reference session (reflua.Session) can be told
// apart.
func ParseBase(src string, base int) (p *Prog, err error) {
	ps := &parser{b: NewB()}
	ps.b.p.next = base
	defer func() {
		if r := recover(); r != nil {
			if pe, ok := r.(parseError); ok {
				p, err = nil, fmt.Errorf("prog.Parse: line %d: %s", pe.line, pe.msg)
				return
			}
			panic(r)
		}
	}()
	ps.lex(src)
	body := ps.block()
	if ps.tok().kind != tEOF {
		ps.fail("unexpected %q", ps.tok().text)
	}
	return ps.b.ProgOf(body), nil
}

// MustParse is Parse for program literals in generators.
func MustParse(src string) *Prog {
	p, err := Parse(src)
	if err != nil {
		panic(err)
	}
	return p
}

type parseError struct {
	line int
	msg  string
}

type tkind int

const (
	tEOF tkind = iota
	tName
	tKeyword
	tInt
	tFloat
	tString
	tOp
)

type token struct {
	kind tkind
	text string
	ival int64
	fval float64
	line int
}

type parser struct {
	b    *B
	toks []token
	pos  int
}

func (ps *parser) fail(f string, a ...interface{}) {
	panic(parseError{ps.tok().line, fmt.Sprintf(f, a...)})
}

func (ps *parser) tok() token { return ps.toks[ps.pos] }
func (ps *parser) next() token {
	t := ps.toks[ps.pos]
	if t.kind != tEOF {
		ps.pos++
	}
	return t
}
func (ps *parser) is(text string) bool {
	t := ps.tok()
	return (t.kind == tOp || t.kind == tKeyword) && t.text == text
}
func (ps *parser) accept(text string) bool {
	if ps.is(text) {
		ps.pos++
		return true
	}
	return false
}
func (ps *parser) expect(text string) {
	if !ps.accept(text) {
		ps.fail("expected %q near %q", text, ps.tok().text)
	}
}
func (ps *parser) name() string {
	t := ps.tok()
	if t.kind != tName {
		ps.fail("name expected near %q", t.text)
	}
	ps.pos++
	return t.text
}

// ---------------------------------------------------------------- lexer

var ops3 = []string{"...", "<<", ">>", "//", "==", "~=", "<=", ">=", "::", ".."}

func (ps *parser) lex(s string) {
	line := 1
	i := 0
	add := func(t token) { t.line = line; ps.toks = append(ps.toks, t) }
	lexFail := func(msg string) { panic(parseError{line, msg}) }
	longOpen := func(j int) int { // s[j]=='[' ; returns level or -1
		k := j + 1
		for k < len(s) && s[k] == '=' {
			k++
		}
		if k < len(s) && s[k] == '[' {
			return k - j - 1
		}
		return -1
	}
	readLong := func(j, level int) (string, int) { // j at first '['
		start := j + level + 2
		if start < len(s) && s[start] == '\r' {
			start++
			if start < len(s) && s[start] == '\n' {
				start++
			}
		} else if start < len(s) && s[start] == '\n' {
			start++
		}
		closer := "]" + strings.Repeat("=", level) + "]"
		e := strings.Index(s[start:], closer)
		if e < 0 {
			lexFail("unfinished long string/comment")
		}
		body := s[start : start+e]
		return body, start + e + len(closer)
	}
	for i < len(s) {
		c := s[i]
		switch {
		case c == '\n':
			line++
			i++
		case c == ' ' || c == '\t' || c == '\r':
			i++
		case c == '-' && i+1 < len(s) && s[i+1] == '-':
			i += 2
			if i < len(s) && s[i] == '[' {
				if lv := longOpen(i); lv >= 0 {
					body, e := readLong(i, lv)
					line += strings.Count(body, "\n")
					i = e
					continue
				}
			}
			for i < len(s) && s[i] != '\n' {
				i++
			}
		case c == '_' || c >= 'a' && c <= 'z' || c >= 'A' && c <= 'Z':
			j := i
			for j < len(s) && (s[j] == '_' || s[j] >= 'a' && s[j] <= 'z' || s[j] >= 'A' && s[j] <= 'Z' || s[j] >= '0' && s[j] <= '9') {
				j++
			}
			w := s[i:j]
			if keywords[w] {
				add(token{kind: tKeyword, text: w})
			} else {
				add(token{kind: tName, text: w})
			}
			i = j
		case c >= '0' && c <= '9' || c == '.' && i+1 < len(s) && s[i+1] >= '0' && s[i+1] <= '9':
			j := i
			if c == '0' && i+1 < len(s) && (s[i+1] == 'x' || s[i+1] == 'X') {
				j = i + 2
				for j < len(s) && strings.IndexByte("0123456789abcdefABCDEF", s[j]) >= 0 {
					j++
				}
				u, err := strconv.ParseUint(s[i+2:j], 16, 64)
				if err != nil {
					lexFail("unsupported hexadecimal numeral " + s[i:j])
				}
				add(token{kind: tInt, text: s[i:j], ival: int64(u)})
				i = j
				continue
			}
			isFloat := false
			for j < len(s) {
				d := s[j]
				if d >= '0' && d <= '9' {
					j++
				} else if d == '.' {
					isFloat = true
					j++
				} else if d == 'e' || d == 'E' {
					isFloat = true
					j++
					if j < len(s) && (s[j] == '+' || s[j] == '-') {
						j++
					}
				} else {
					break
				}
			}
			if isFloat {
				f, err := strconv.ParseFloat(s[i:j], 64)
				if err != nil {
					lexFail("malformed number " + s[i:j])
				}
				add(token{kind: tFloat, text: s[i:j], fval: f})
			} else {
				n, err := strconv.ParseInt(s[i:j], 10, 64)
				if err != nil {
					lexFail("unsupported integer numeral " + s[i:j])
				}
				add(token{kind: tInt, text: s[i:j], ival: n})
			}
			i = j
		case c == '"' || c == '\'':
			var sb strings.Builder
			j := i + 1
			for {
				if j >= len(s) || s[j] == '\n' {
					lexFail("unfinished string")
				}
				d := s[j]
				if d == c {
					j++
					break
				}
				if d != '\\' {
					sb.WriteByte(d)
					j++
					continue
				}
				j++
				if j >= len(s) {
					lexFail("unfinished string")
				}
				e := s[j]
				j++
				switch e {
				case 'n':
					sb.WriteByte('\n')
				case 't':
					sb.WriteByte('\t')
				case 'r':
					sb.WriteByte('\r')
				case 'a':
					sb.WriteByte(7)
				case 'b':
					sb.WriteByte(8)
				case 'f':
					sb.WriteByte(12)
				case 'v':
					sb.WriteByte(11)
				case '\\', '"', '\'':
					sb.WriteByte(e)
				case '\n':
					sb.WriteByte('\n')
					line++
				case 'x':
					if j+2 > len(s) {
						lexFail("bad \\x escape")
					}
					u, err := strconv.ParseUint(s[j:j+2], 16, 8)
					if err != nil {
						lexFail("bad \\x escape")
					}
					sb.WriteByte(byte(u))
					j += 2
				case 'z':
					for j < len(s) && strings.IndexByte(" \t\r\n", s[j]) >= 0 {
						if s[j] == '\n' {
							line++
						}
						j++
					}
				default:
					if e >= '0' && e <= '9' {
						k := j - 1
						for j < len(s) && j < k+3 && s[j] >= '0' && s[j] <= '9' {
							j++
						}
						u, _ := strconv.Atoi(s[k:j])
						if u > 255 {
							lexFail("decimal escape too large")
						}
						sb.WriteByte(byte(u))
					} else {
						lexFail("unsupported escape \\" + string(e))
					}
				}
			}
			add(token{kind: tString, text: sb.String()})
			i = j
		case c == '[' && longOpen(i) >= 0:
			body, e := readLong(i, longOpen(i))
			add(token{kind: tString, text: strings.ReplaceAll(body, "\r\n", "\n")})
			line += strings.Count(s[i:e], "\n")
			i = e
		default:
			matched := false
			for _, op := range ops3 {
				if strings.HasPrefix(s[i:], op) {
					add(token{kind: tOp, text: op})
					i += len(op)
					matched = true
					break
				}
			}
			if matched {
				continue
			}
			if strings.IndexByte("+-*/%^#&~|<>=(){}[];:,.", c) < 0 {
				lexFail(fmt.Sprintf("unexpected character %q", c))
			}
			add(token{kind: tOp, text: string(c)})
			i++
		}
	}
	add(token{kind: tEOF, text: "<eof>"})
}

// ---------------------------------------------------------------- statements

func (ps *parser) blockEnd() bool {
	t := ps.tok()
	if t.kind == tEOF {
		return true
	}
	if t.kind == tKeyword {
		switch t.text {
		case "end", "else", "elseif", "until":
			return true
		}
	}
	return false
}

func (ps *parser) block() []Stmt {
	body := []Stmt{}
	for !ps.blockEnd() {
		if ps.is("return") {
			ps.next()
			var es []Expr
			if !ps.blockEnd() && !ps.is(";") {
				es = ps.exprList()
			}
			ps.accept(";")
			body = append(body, ps.b.Return(es...))
			if !ps.blockEnd() {
				ps.fail("'return' must be the last statement of a block")
			}
			break
		}
		if s := ps.stat(); s != nil {
			body = append(body, s)
		}
	}
	return body
}

func (ps *parser) funcBody(self bool) *Func {
	b := ps.b
	ps.expect("(")
	var params []string
	if self {
		params = append(params, "self")
	}
	vararg := false
	for !ps.is(")") {
		if ps.accept("...") {
			vararg = true
			break
		}
		params = append(params, ps.name())
		if !ps.accept(",") {
			break
		}
	}
	ps.expect(")")
	body := ps.block()
	ps.expect("end")
	return b.Func(params, vararg, body...)
}

func (ps *parser) stat() Stmt {
	b := ps.b
	t := ps.tok()
	if t.kind == tOp {
		switch t.text {
		case ";":
			ps.next()
			return nil
		case "::":
			ps.next()
			n := ps.name()
			ps.expect("::")
			return b.Label(n)
		}
	}
	if t.kind == tKeyword {
		switch t.text {
		case "break":
			ps.next()
			return b.Break()
		case "goto":
			ps.next()
			return b.Goto(ps.name())
		case "do":
			ps.next()
			body := ps.block()
			ps.expect("end")
			return b.Do(body...)
		case "while":
			ps.next()
			c := ps.expr()
			ps.expect("do")
			body := ps.block()
			ps.expect("end")
			return b.While(c, body...)
		case "repeat":
			ps.next()
			body := ps.block()
			ps.expect("until")
			return b.Repeat(body, ps.expr())
		case "if":
			ps.next()
			var conds []Expr
			var blocks [][]Stmt
			conds = append(conds, ps.expr())
			ps.expect("then")
			blocks = append(blocks, ps.block())
			var els []Stmt
			hasElse := false
			for {
				if ps.accept("elseif") {
					conds = append(conds, ps.expr())
					ps.expect("then")
					blocks = append(blocks, ps.block())
					continue
				}
				if ps.accept("else") {
					els = ps.block()
					hasElse = true
				}
				ps.expect("end")
				break
			}
			return b.IfElseIf(conds, blocks, els, hasElse)
		case "for":
			ps.next()
			n1 := ps.name()
			if ps.accept("=") {
				start := ps.expr()
				ps.expect(",")
				stop := ps.expr()
				var step Expr
				if ps.accept(",") {
					step = ps.expr()
				}
				ps.expect("do")
				body := ps.block()
				ps.expect("end")
				return b.NumFor(n1, start, stop, step, body...)
			}
			names := []string{n1}
			for ps.accept(",") {
				names = append(names, ps.name())
			}
			ps.expect("in")
			es := ps.exprList()
			ps.expect("do")
			body := ps.block()
			ps.expect("end")
			return b.GenFor(names, es, body...)
		case "function":
			ps.next()
			path := []string{ps.name()}
			method := ""
			for ps.accept(".") {
				path = append(path, ps.name())
			}
			if ps.accept(":") {
				method = ps.name()
			}
			return b.FuncStat(path, method, ps.funcBody(method != ""))
		case "local":
			ps.next()
			if ps.accept("function") {
				n := ps.name()
				return b.LocalFunc(n, ps.funcBody(false))
			}
			var names, attribs []string
			for {
				names = append(names, ps.name())
				a := ""
				if ps.accept("<") {
					a = ps.name()
					if a != "const" && a != "close" {
						ps.fail("unknown attribute %q", a)
					}
					ps.expect(">")
				}
				attribs = append(attribs, a)
				if !ps.accept(",") {
					break
				}
			}
			var es []Expr
			if ps.accept("=") {
				es = ps.exprList()
			}
			l := b.Local(names, es...).(*Local)
			l.Attribs = attribs
			return l
		}
	}
	// assignment or call
	e := ps.suffixed()
	if ps.is("=") || ps.is(",") {
		targets := []Expr{e}
		for ps.accept(",") {
			targets = append(targets, ps.suffixed())
		}
		ps.expect("=")
		for _, t := range targets {
			switch t.(type) {
			case *Name, *Index:
			default:
				ps.fail("cannot assign to this expression")
			}
		}
		return b.Assign(targets, ps.exprList()...)
	}
	switch e.(type) {
	case *Call, *Method:
		return b.CallS(e)
	}
	ps.fail("syntax error near %q", ps.tok().text)
	return nil
}

// ---------------------------------------------------------------- expressions

func (ps *parser) exprList() []Expr {
	es := []Expr{ps.expr()}
	for ps.accept(",") {
		es = append(es, ps.expr())
	}
	return es
}

func (ps *parser) primary() Expr {
	b := ps.b
	t := ps.tok()
	if t.kind == tName {
		ps.next()
		return b.Name(t.text)
	}
	if ps.accept("(") {
		e := ps.expr()
		ps.expect(")")
		return b.Paren(e)
	}
	ps.fail("unexpected %q", t.text)
	return nil
}

func (ps *parser) callArgs() []Expr {
	b := ps.b
	t := ps.tok()
	if t.kind == tString {
		ps.next()
		return []Expr{b.Str(t.text)}
	}
	if ps.is("{") {
		return []Expr{ps.table()}
	}
	ps.expect("(")
	var args []Expr
	if !ps.is(")") {
		args = ps.exprList()
	}
	ps.expect(")")
	return args
}

func (ps *parser) suffixed() Expr {
	b := ps.b
	e := ps.primary()
	for {
		t := ps.tok()
		switch {
		case ps.is("."):
			ps.next()
			e = b.Dot(e, ps.name())
		case ps.is("["):
			ps.next()
			k := ps.expr()
			ps.expect("]")
			e = b.Index(e, k)
		case ps.is(":"):
			ps.next()
			n := ps.name()
			e = b.Method(e, n, ps.callArgs()...)
		case ps.is("(") || ps.is("{") || t.kind == tString:
			e = b.Call(e, ps.callArgs()...)
		default:
			return e
		}
	}
}

func (ps *parser) table() Expr {
	b := ps.b
	ps.expect("{")
	var fields []Field
	for !ps.is("}") {
		switch {
		case ps.is("["):
			ps.next()
			k := ps.expr()
			ps.expect("]")
			ps.expect("=")
			fields = append(fields, Field{Key: k, Val: ps.expr()})
		case ps.tok().kind == tName && ps.toks[ps.pos+1].kind == tOp && ps.toks[ps.pos+1].text == "=":
			n := ps.name()
			ps.expect("=")
			fields = append(fields, Field{Nam: n, Val: ps.expr()})
		default:
			fields = append(fields, Field{Val: ps.expr()})
		}
		if !ps.accept(",") && !ps.accept(";") {
			break
		}
	}
	ps.expect("}")
	return b.Table(fields...)
}

func (ps *parser) simple() Expr {
	b := ps.b
	t := ps.tok()
	switch t.kind {
	case tInt:
		ps.next()
		return b.Int(t.ival)
	case tFloat:
		ps.next()
		return b.Float(t.fval)
	case tString:
		ps.next()
		return b.Str(t.text)
	case tKeyword:
		switch t.text {
		case "nil":
			ps.next()
			return b.Nil()
		case "true":
			ps.next()
			return b.True()
		case "false":
			ps.next()
			return b.False()
		case "function":
			ps.next()
			return ps.funcBody(false)
		}
	case tOp:
		switch t.text {
		case "...":
			ps.next()
			return b.Vararg()
		case "{":
			return ps.table()
		}
	}
	return ps.suffixed()
}

func (ps *parser) expr() Expr { return ps.subexpr(0) }

// subexpr parses an expression whose binary operators all bind tighter than limit.
func (ps *parser) subexpr(limit int) Expr {
	b := ps.b
	var e Expr
	t := ps.tok()
	if (t.kind == tKeyword && t.text == "not") || (t.kind == tOp && (t.text == "-" || t.text == "#" || t.text == "~")) {
		ps.next()
		e = b.Un(t.text, ps.subexpr(unaryPrec))
	} else {
		e = ps.simple()
	}
	for {
		t := ps.tok()
		if t.kind != tOp && !(t.kind == tKeyword && (t.text == "and" || t.text == "or")) {
			return e
		}
		p := prec(t.text)
		if p == 0 || p <= limit {
			return e
		}
		ps.next()
		rlimit := p
		if rightAssoc(t.text) {
			rlimit = p - 1
		}
		r := ps.subexpr(rlimit)
		e = b.Bin(t.text, e, r)
	}
}
