package prog

import (
	"fmt"
	"math"
	"strconv"
	"strings"
)

// Style selects one spelling of the same program.
type Style int

const (
	Plain   Style = iota // one statement per line, minimal parentheses
	Parens               // every operator operand parenthesised
	OneLine              // the whole chunk on one line
	TokLine              // one token per line, comments between tokens
	AltLit               // alternative literal / sugar spellings
	CRLF                 // Plain with \r\n line ends
	NStyles
)

func (s Style) String() string {
	return [...]string{"plain", "parens", "oneline", "tokline", "altlit", "crlf"}[s]
}

// LinesExact reports whether error positions are unambiguous in this style
// (every statement on its own single line).
func (s Style) LinesExact() bool { return s == Plain || s == Parens || s == AltLit || s == CRLF }

// Span is the range of lines a node occupies in one rendering.
type Span struct{ First, Last int }

type renderer struct {
	spans  map[int]*Span
	style  Style
	sb     strings.Builder
	line   int
	indent int
	bol    bool // at beginning of line
	ntok   int
	lines  map[int]int
	first  bool
}

// Render returns the source text and a map node id -> line of its first token.
func Render(p *Prog, style Style) (string, map[int]*Span) {
	r := &renderer{style: style, line: 1, bol: true, lines: map[int]int{}, first: true, spans: map[int]*Span{}}
	r.block(p.Body)
	s := r.sb.String()
	if style == CRLF {
		s = strings.ReplaceAll(s, "\n", "\r\n")
	}
	for id, l := range r.lines {
		if sp, ok := r.spans[id]; ok {
			if l < sp.First {
				sp.First = l
			}
		} else {
			r.spans[id] = &Span{l, l}
		}
	}
	return s, r.spans
}

func (r *renderer) nextLine() int {
	l := r.line
	if r.style == TokLine && !r.first {
		c := comments[r.ntok%len(comments)]
		l += strings.Count(c, "\n") + 1
	}
	return l
}

func (r *renderer) expr(e Expr) {
	id := IDOf(e)
	first := r.nextLine()
	r.expr1(e)
	if id != 0 {
		if _, ok := r.spans[id]; !ok {
			r.spans[id] = &Span{first, r.line}
		}
	}
}

func (r *renderer) stmt(s Stmt) {
	id := IDOf(s)
	first := r.nextLine()
	r.stmt1(s)
	if id != 0 {
		if _, ok := r.spans[id]; !ok {
			r.spans[id] = &Span{first, r.line}
		}
	}
}

var comments = []string{"", "-- c", "--[[ c\n ]]", "--[==[ ]] ]==]", "--", "--[ not long"}

func (r *renderer) tok(t string, nodes ...interface{}) {
	switch r.style {
	case TokLine:
		if !r.first {
			c := comments[r.ntok%len(comments)]
			if c != "" {
				r.sb.WriteString(" " + c)
				r.line += strings.Count(c, "\n")
			}
			r.sb.WriteString("\n")
			r.line++
		}
	case OneLine:
		if !r.first {
			r.sb.WriteString(" ")
		}
	default:
		if r.bol {
			r.sb.WriteString(strings.Repeat("  ", r.indent))
		} else {
			r.sb.WriteString(" ")
		}
	}
	r.first = false
	r.bol = false
	r.ntok++
	for _, n := range nodes {
		if id := IDOf(n); id != 0 {
			if _, ok := r.lines[id]; !ok {
				r.lines[id] = r.line
			}
		}
	}
	r.sb.WriteString(t)
	r.line += strings.Count(t, "\n")
}

func (r *renderer) nl() {
	switch r.style {
	case TokLine, OneLine:
		return
	}
	if !r.bol {
		r.sb.WriteString("\n")
		r.line++
		r.bol = true
	}
}

func (r *renderer) block(body []Stmt) {
	r.indent++
	for _, s := range body {
		r.nl()
		r.stmt(s)
	}
	r.indent--
	r.nl()
}

var keywords = map[string]bool{"and": true, "break": true, "do": true, "else": true, "elseif": true, "end": true, "false": true, "for": true,
	"function": true, "goto": true, "if": true, "in": true, "local": true, "nil": true, "not": true, "or": true, "repeat": true, "return": true,
	"then": true, "true": true, "until": true, "while": true}

func isIdent(s string) bool {
	if s == "" || keywords[s] {
		return false
	}
	for i := 0; i < len(s); i++ {
		c := s[i]
		if !(c == '_' || c >= 'a' && c <= 'z' || c >= 'A' && c <= 'Z' || i > 0 && c >= '0' && c <= '9') {
			return false
		}
	}
	return true
}

func prec(op string) int {
	switch op {
	case "or":
		return 1
	case "and":
		return 2
	case "<", ">", "<=", ">=", "~=", "==":
		return 3
	case "|":
		return 4
	case "~":
		return 5
	case "&":
		return 6
	case "<<", ">>":
		return 7
	case "..":
		return 8
	case "+", "-":
		return 9
	case "*", "/", "//", "%":
		return 10
	case "^":
		return 12
	}
	return 0
}

const unaryPrec = 11

func rightAssoc(op string) bool { return op == ".." || op == "^" }

func exprPrec(e Expr) int {
	switch x := e.(type) {
	case *Bin:
		return prec(x.Op)
	case *Un:
		return unaryPrec
	case *Int:
		if x.V < 0 {
			return 0 // rendered parenthesised anyway
		}
	}
	return 100
}

func (r *renderer) operand(e Expr, need bool) {
	if r.style == Parens {
		switch e.(type) {
		case *Bin, *Un:
			need = true
		}
	}
	if need {
		r.tok("(", e)
		r.expr(e)
		r.tok(")")
		return
	}
	r.expr(e)
}

func (r *renderer) quote(s string) string {
	if r.style == AltLit {
		// long bracket when possible, else decimal escapes everywhere possible
		// (the empty long string [==[]==] is left to check C12: golua cannot load it)
		if s != "" && !strings.Contains(s, "]") && !strings.ContainsAny(s, "\r") && isPrintable(s) && !strings.HasPrefix(s, "\n") {
			return "[==[" + s + "]==]"
		}
		var sb strings.Builder
		sb.WriteByte('\'')
		for i := 0; i < len(s); i++ {
			c := s[i]
			switch {
			case c == '\'' || c == '\\':
				sb.WriteByte('\\')
				sb.WriteByte(c)
			case c == '\n':
				sb.WriteString("\\n")
			case c >= 32 && c < 127:
				sb.WriteByte(c)
			default:
				fmt.Fprintf(&sb, "\\x%02x", c)
			}
		}
		sb.WriteByte('\'')
		return sb.String()
	}
	var sb strings.Builder
	sb.WriteByte('"')
	for i := 0; i < len(s); i++ {
		c := s[i]
		switch {
		case c == '"' || c == '\\':
			sb.WriteByte('\\')
			sb.WriteByte(c)
		case c == '\n':
			sb.WriteString("\\n")
		case c >= 32 && c < 127:
			sb.WriteByte(c)
		default:
			fmt.Fprintf(&sb, "\\%03d", c)
		}
	}
	sb.WriteByte('"')
	return sb.String()
}

func isPrintable(s string) bool {
	for i := 0; i < len(s); i++ {
		if (s[i] < 32 && s[i] != '\n') || s[i] >= 127 {
			return false
		}
	}
	return true
}

func (r *renderer) intLit(v int64) string {
	if v == math.MinInt64 {
		if r.style == AltLit {
			return "0x8000000000000000"
		}
		return "(-9223372036854775807-1)"
	}
	if v < 0 {
		if r.style == AltLit {
			return "0x" + strconv.FormatUint(uint64(v), 16) // hex numerals wrap
		}
		return "(" + strconv.FormatInt(v, 10) + ")"
	}
	if r.style == AltLit {
		return "0X" + strings.ToUpper(strconv.FormatInt(v, 16))
	}
	return strconv.FormatInt(v, 10)
}

func (r *renderer) floatLit(f float64) string {
	switch {
	case f != f:
		return "(0/0)"
	case math.IsInf(f, 1):
		return "(1/0)"
	case math.IsInf(f, -1):
		return "(-1/0)"
	case f == 0 && math.Signbit(f):
		return "(-0.0)"
	}
	neg := f < 0
	a := math.Abs(f)
	var s string
	if r.style == AltLit {
		s = strconv.FormatFloat(a, 'e', -1, 64)
	} else {
		s = strconv.FormatFloat(a, 'g', -1, 64)
		if !strings.ContainsAny(s, ".e") {
			s += ".0"
		}
	}
	if neg {
		return "(-" + s + ")"
	}
	return s
}

func isPrefixExp(e Expr) bool {
	switch e.(type) {
	case *Name, *Index, *Call, *Method, *Paren:
		return true
	}
	return false
}

func (r *renderer) prefix(e Expr) {
	if isPrefixExp(e) {
		r.expr(e)
		return
	}
	r.tok("(", e)
	r.expr(e)
	r.tok(")")
}

func (r *renderer) args(args []Expr) {
	r.tok("(")
	for i, a := range args {
		if i > 0 {
			r.tok(",")
		}
		r.expr(a)
	}
	r.tok(")")
}

func (r *renderer) funcBody(f *Func, self bool) {
	r.tok("(")
	n := 0
	for _, p := range f.Params {
		if self && n == 0 && p == "self" {
			self = false
			continue
		}
		if n > 0 {
			r.tok(",")
		}
		r.tok(p)
		n++
	}
	if f.IsVararg {
		if n > 0 {
			r.tok(",")
		}
		r.tok("...")
	}
	r.tok(")")
	r.block(f.Body)
	r.tok("end")
}

func (r *renderer) expr1(e Expr) {
	switch x := e.(type) {
	case *Nil:
		r.tok("nil", x)
	case *True:
		r.tok("true", x)
	case *False:
		r.tok("false", x)
	case *Int:
		r.tok(r.intLit(x.V), x)
	case *Float:
		r.tok(r.floatLit(x.V), x)
	case *Str:
		r.tok(r.quote(x.V), x)
	case *Vararg:
		r.tok("...", x)
	case *Name:
		r.tok(x.N, x)
	case *Paren:
		r.tok("(", x)
		r.expr(x.E)
		r.tok(")")
	case *Index:
		// tag the index node at its first token
		r.tagNext(x)
		r.prefix(x.Obj)
		if k, ok := x.Key.(*Str); ok && isIdent(k.V) && r.style != AltLit {
			r.tok(".")
			r.tok(k.V)
		} else {
			r.tok("[")
			r.expr(x.Key)
			r.tok("]")
		}
	case *Call:
		r.tagNext(x)
		r.prefix(x.Fn)
		r.args(x.Args)
	case *Method:
		r.tagNext(x)
		r.prefix(x.Obj)
		r.tok(":")
		r.tok(x.Name)
		r.args(x.Args)
	case *Func:
		r.tok("function", x)
		r.funcBody(x, false)
	case *Bin:
		r.tagNext(x)
		p := prec(x.Op)
		lp, rp := exprPrec(x.L), exprPrec(x.R)
		var needL, needR bool
		if rightAssoc(x.Op) {
			needL = lp <= p
			needR = rp < p
			if x.Op == "^" {
				// the right operand of ^ may be a unary expression without parentheses
				if _, ok := x.R.(*Un); ok {
					needR = false
				}
			}
		} else {
			needL = lp < p
			needR = rp <= p
		}
		r.operand(x.L, needL)
		r.tok(x.Op)
		r.operand(x.R, needR)
	case *Un:
		r.tok(x.Op, x)
		need := false
		if b, ok := x.E.(*Bin); ok && prec(b.Op) < unaryPrec {
			need = true
		}
		r.operand(x.E, need)
	case *TableC:
		r.tok("{", x)
		sep := ","
		if r.style == AltLit {
			sep = ";"
		}
		for i, f := range x.Fields {
			if i > 0 {
				r.tok(sep)
			}
			switch {
			case f.Nam != "":
				if r.style == AltLit {
					r.tok("[")
					r.tok(r.quote(f.Nam))
					r.tok("]")
				} else {
					r.tok(f.Nam)
				}
				r.tok("=")
			case f.Key != nil:
				r.tok("[")
				r.expr(f.Key)
				r.tok("]")
				r.tok("=")
			}
			r.expr(f.Val)
		}
		if r.style == AltLit && len(x.Fields) > 0 {
			r.tok(sep) // trailing separator is allowed
		}
		r.tok("}")
	default:
		panic(fmt.Sprintf("render: unknown expr %T", e))
	}
}

// tagNext records the line of the next token for node n.
func (r *renderer) tagNext(n interface{}) {
	id := IDOf(n)
	if id == 0 {
		return
	}
	if _, ok := r.lines[id]; ok {
		return
	}
	// the next token starts on the current line except in TokLine style
	l := r.line
	if r.style == TokLine && !r.first {
		c := comments[r.ntok%len(comments)]
		l += strings.Count(c, "\n") + 1
	}
	r.lines[id] = l
}

func startsWithParen(e Expr) bool {
	for {
		switch x := e.(type) {
		case *Paren:
			return true
		case *Call:
			if !isPrefixExp(x.Fn) {
				return true
			}
			e = x.Fn
		case *Method:
			if !isPrefixExp(x.Obj) {
				return true
			}
			e = x.Obj
		case *Index:
			if !isPrefixExp(x.Obj) {
				return true
			}
			e = x.Obj
		default:
			return false
		}
	}
}

func (r *renderer) exprList(es []Expr) {
	for i, e := range es {
		if i > 0 {
			r.tok(",")
		}
		r.expr(e)
	}
}

func (r *renderer) stmt1(s Stmt) {
	switch x := s.(type) {
	case *Local:
		r.tok("local", x)
		for i, n := range x.Names {
			if i > 0 {
				r.tok(",")
			}
			r.tok(n)
			if i < len(x.Attribs) && x.Attribs[i] != "" {
				r.tok("<")
				r.tok(x.Attribs[i])
				r.tok(">")
			}
		}
		if len(x.Exprs) > 0 {
			r.tok("=")
			r.exprList(x.Exprs)
		}
	case *Assign:
		if startsWithParen(x.Targets[0]) {
			r.tok(";")
		}
		r.tagNext(x)
		r.exprList(x.Targets)
		r.tok("=")
		r.exprList(x.Exprs)
	case *CallStat:
		if startsWithParen(x.Call) {
			r.tok(";")
		}
		r.tagNext(x)
		r.expr(x.Call)
	case *Do:
		r.tok("do", x)
		r.block(x.Body)
		r.tok("end")
	case *While:
		r.tok("while", x)
		r.expr(x.Cond)
		r.tok("do")
		r.block(x.Body)
		r.tok("end")
	case *Repeat:
		r.tok("repeat", x)
		r.block(x.Body)
		r.tok("until")
		r.expr(x.Cond)
	case *If:
		for i, c := range x.Conds {
			if i == 0 {
				r.tok("if", x)
			} else {
				r.tok("elseif")
			}
			r.expr(c)
			r.tok("then")
			r.block(x.Blocks[i])
		}
		if x.HasElse {
			r.tok("else")
			r.block(x.Else)
		}
		r.tok("end")
	case *NumFor:
		r.tok("for", x)
		r.tok(x.Var)
		r.tok("=")
		r.expr(x.Start)
		r.tok(",")
		r.expr(x.Stop)
		if x.Step != nil {
			r.tok(",")
			r.expr(x.Step)
		}
		r.tok("do")
		r.block(x.Body)
		r.tok("end")
	case *GenFor:
		r.tok("for", x)
		for i, n := range x.Names {
			if i > 0 {
				r.tok(",")
			}
			r.tok(n)
		}
		r.tok("in")
		r.exprList(x.Exprs)
		r.tok("do")
		r.block(x.Body)
		r.tok("end")
	case *LocalFunc:
		if r.style == AltLit {
			// local function f ... end  ==  local f; f = function ... end
			r.tok("local", x)
			r.tok(x.Name)
			r.tok(";")
			r.tok(x.Name)
			r.tok("=")
			r.tok("function", x.F)
			r.funcBody(x.F, false)
			return
		}
		r.tok("local", x)
		r.tok("function", x.F)
		r.tok(x.Name)
		r.funcBody(x.F, false)
	case *FuncStat:
		if r.style == AltLit && x.Method == "" {
			r.tagNext(x)
			for i, p := range x.Path {
				if i > 0 {
					r.tok(".")
				}
				r.tok(p)
			}
			r.tok("=")
			r.tok("function", x.F)
			r.funcBody(x.F, false)
			return
		}
		r.tok("function", x, x.F)
		for i, p := range x.Path {
			if i > 0 {
				r.tok(".")
			}
			r.tok(p)
		}
		if x.Method != "" {
			r.tok(":")
			r.tok(x.Method)
		}
		r.funcBody(x.F, x.Method != "")
	case *Return:
		r.tok("return", x)
		r.exprList(x.Exprs)
		if r.style == AltLit || r.style == OneLine {
			r.tok(";")
		}
	case *Break:
		r.tok("break", x)
	case *Goto:
		r.tok("goto", x)
		r.tok(x.Label)
	case *Label:
		r.tok("::", x)
		r.tok(x.Name)
		r.tok("::")
	default:
		panic(fmt.Sprintf("render: unknown stmt %T", s))
	}
}
