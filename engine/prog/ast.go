// Package prog is the checker's own Lua program representation: an AST that
// generators build, the renderer turns into source text in several spellings,
// and the reference interpreter (reflua) evaluates directly.  It shares no
// code with golua.
package prog

// Node carries an id (unique within a Prog) so that source positions of one
// rendering can be attached after the reference has run.
type Node struct{ ID int }

type Expr interface{ exprNode() }
type Stmt interface{ stmtNode() }

type (
	Nil   struct{ Node }
	True  struct{ Node }
	False struct{ Node }
	Int   struct {
		Node
		V int64
	}
	Float struct {
		Node
		V float64
	}
	Str struct {
		Node
		V string
	}
	Vararg struct{ Node }
	Name   struct {
		Node
		N string
	}
	Index struct {
		Node
		Obj, Key Expr
	}
	Call struct {
		Node
		Fn   Expr
		Args []Expr
	}
	Method struct {
		Node
		Obj  Expr
		Name string
		Args []Expr
	}
	Func struct {
		Node
		Params   []string
		IsVararg bool
		Body     []Stmt
		// NameHint is used in renderings of `function name()`.
	}
	Bin struct {
		Node
		Op   string // + - * / // % ^ & | ~ << >> .. == ~= < <= > >= and or
		L, R Expr
	}
	Un struct {
		Node
		Op string // - not # ~
		E  Expr
	}
	Field struct {
		Key Expr   // nil for positional
		Nam string // non-empty for name = value
		Val Expr
	}
	TableC struct {
		Node
		Fields []Field
	}
	Paren struct {
		Node
		E Expr
	}
)

func (*Nil) exprNode()    {}
func (*True) exprNode()   {}
func (*False) exprNode()  {}
func (*Int) exprNode()    {}
func (*Float) exprNode()  {}
func (*Str) exprNode()    {}
func (*Vararg) exprNode() {}
func (*Name) exprNode()   {}
func (*Index) exprNode()  {}
func (*Call) exprNode()   {}
func (*Method) exprNode() {}
func (*Func) exprNode()   {}
func (*Bin) exprNode()    {}
func (*Un) exprNode()     {}
func (*TableC) exprNode() {}
func (*Paren) exprNode()  {}

type (
	Local struct {
		Node
		Names   []string
		Attribs []string // "", "const", "close"
		Exprs   []Expr
	}
	Assign struct {
		Node
		Targets []Expr // Name or Index
		Exprs   []Expr
	}
	CallStat struct {
		Node
		Call Expr // *Call or *Method
	}
	Do struct {
		Node
		Body []Stmt
	}
	While struct {
		Node
		Cond Expr
		Body []Stmt
	}
	Repeat struct {
		Node
		Body []Stmt
		Cond Expr
	}
	If struct {
		Node
		Conds   []Expr
		Blocks  [][]Stmt
		Else    []Stmt // nil = absent
		HasElse bool
	}
	NumFor struct {
		Node
		Var               string
		Start, Stop, Step Expr // Step may be nil
		Body              []Stmt
	}
	GenFor struct {
		Node
		Names []string
		Exprs []Expr
		Body  []Stmt
	}
	LocalFunc struct {
		Node
		Name string
		F    *Func
	}
	FuncStat struct {
		Node
		Path   []string // a.b.c
		Method string   // :m (optional)
		F      *Func
	}
	Return struct {
		Node
		Exprs []Expr
	}
	Break struct{ Node }
	Goto  struct {
		Node
		Label string
	}
	Label struct {
		Node
		Name string
	}
)

func (*Local) stmtNode()     {}
func (*Assign) stmtNode()    {}
func (*CallStat) stmtNode()  {}
func (*Do) stmtNode()        {}
func (*While) stmtNode()     {}
func (*Repeat) stmtNode()    {}
func (*If) stmtNode()        {}
func (*NumFor) stmtNode()    {}
func (*GenFor) stmtNode()    {}
func (*LocalFunc) stmtNode() {}
func (*FuncStat) stmtNode()  {}
func (*Return) stmtNode()    {}
func (*Break) stmtNode()     {}
func (*Goto) stmtNode()      {}
func (*Label) stmtNode()     {}

// Prog is a chunk.
type Prog struct {
	Body []Stmt
	// Args are the values the chunk is called with (they reach the chunk's
	// `...`): each is nil, bool, int64, float64 or string.
	Args []interface{}
	// Key is a canonical, process independent descriptor of the program within
	// its family (token string, mixed-radix digits, ...); violation keys are
	// built from it.
	Key  string
	next int
}

// B is a small builder assigning node ids.
type B struct{ p *Prog }

func NewB() *B { return &B{p: &Prog{}} }

func (b *B) id() Node { b.p.next++; return Node{ID: b.p.next} }

func (b *B) Prog(body ...Stmt) *Prog { b.p.Body = body; return b.p }

// ProgOf is Prog for a statement slice.
func (b *B) ProgOf(body []Stmt) *Prog { b.p.Body = body; return b.p }

func (b *B) Nil() Expr            { return &Nil{b.id()} }
func (b *B) True() Expr           { return &True{b.id()} }
func (b *B) False() Expr          { return &False{b.id()} }
func (b *B) Int(v int64) Expr     { return &Int{b.id(), v} }
func (b *B) Float(v float64) Expr { return &Float{b.id(), v} }
func (b *B) Str(v string) Expr    { return &Str{b.id(), v} }
func (b *B) Vararg() Expr         { return &Vararg{b.id()} }
func (b *B) Name(n string) Expr   { return &Name{b.id(), n} }
func (b *B) Index(o, k Expr) Expr { return &Index{b.id(), o, k} }
func (b *B) Dot(o Expr, k string) Expr {
	return &Index{b.id(), o, &Str{b.id(), k}}
}
func (b *B) Call(f Expr, args ...Expr) Expr { return &Call{b.id(), f, args} }
func (b *B) CallN(f string, args ...Expr) Expr {
	return &Call{b.id(), b.Name(f), args}
}
func (b *B) Method(o Expr, name string, args ...Expr) Expr {
	return &Method{b.id(), o, name, args}
}
func (b *B) Func(params []string, vararg bool, body ...Stmt) *Func {
	return &Func{b.id(), params, vararg, body}
}
func (b *B) Bin(op string, l, r Expr) Expr { return &Bin{b.id(), op, l, r} }
func (b *B) Un(op string, e Expr) Expr     { return &Un{b.id(), op, e} }
func (b *B) Paren(e Expr) Expr             { return &Paren{b.id(), e} }
func (b *B) Table(fields ...Field) Expr    { return &TableC{b.id(), fields} }
func (b *B) List(vals ...Expr) Expr {
	fs := make([]Field, len(vals))
	for i, v := range vals {
		fs[i] = Field{Val: v}
	}
	return &TableC{b.id(), fs}
}

func (b *B) Local(names []string, exprs ...Expr) Stmt {
	return &Local{b.id(), names, make([]string, len(names)), exprs}
}
func (b *B) Local1(name string, e Expr) Stmt {
	return &Local{b.id(), []string{name}, []string{""}, []Expr{e}}
}
func (b *B) LocalAttr(name, attr string, e Expr) Stmt {
	return &Local{b.id(), []string{name}, []string{attr}, []Expr{e}}
}
func (b *B) Assign(targets []Expr, exprs ...Expr) Stmt { return &Assign{b.id(), targets, exprs} }
func (b *B) Set(name string, e Expr) Stmt {
	return &Assign{b.id(), []Expr{b.Name(name)}, []Expr{e}}
}
func (b *B) CallS(call Expr) Stmt { return &CallStat{b.id(), call} }
func (b *B) Emit(args ...Expr) Stmt {
	return &CallStat{b.id(), b.CallN("emit", args...)}
}
func (b *B) Do(body ...Stmt) Stmt            { return &Do{b.id(), body} }
func (b *B) While(c Expr, body ...Stmt) Stmt { return &While{b.id(), c, body} }
func (b *B) Repeat(body []Stmt, c Expr) Stmt { return &Repeat{b.id(), body, c} }
func (b *B) If(c Expr, then []Stmt, els []Stmt) Stmt {
	return &If{b.id(), []Expr{c}, [][]Stmt{then}, els, els != nil}
}
func (b *B) IfElseIf(conds []Expr, blocks [][]Stmt, els []Stmt, hasElse bool) Stmt {
	return &If{b.id(), conds, blocks, els, hasElse}
}
func (b *B) NumFor(v string, start, stop, step Expr, body ...Stmt) Stmt {
	return &NumFor{b.id(), v, start, stop, step, body}
}
func (b *B) GenFor(names []string, exprs []Expr, body ...Stmt) Stmt {
	return &GenFor{b.id(), names, exprs, body}
}
func (b *B) LocalFunc(name string, f *Func) Stmt { return &LocalFunc{b.id(), name, f} }
func (b *B) FuncStat(path []string, method string, f *Func) Stmt {
	return &FuncStat{b.id(), path, method, f}
}
func (b *B) Return(exprs ...Expr) Stmt { return &Return{b.id(), exprs} }
func (b *B) Break() Stmt               { return &Break{b.id()} }
func (b *B) Goto(l string) Stmt        { return &Goto{b.id(), l} }
func (b *B) Label(l string) Stmt       { return &Label{b.id(), l} }

// IDOf returns the node id of an expression or statement.
func IDOf(n interface{}) int {
	switch x := n.(type) {
	case *Nil:
		return x.ID
	case *True:
		return x.ID
	case *False:
		return x.ID
	case *Int:
		return x.ID
	case *Float:
		return x.ID
	case *Str:
		return x.ID
	case *Vararg:
		return x.ID
	case *Name:
		return x.ID
	case *Index:
		return x.ID
	case *Call:
		return x.ID
	case *Method:
		return x.ID
	case *Func:
		return x.ID
	case *Bin:
		return x.ID
	case *Un:
		return x.ID
	case *TableC:
		return x.ID
	case *Paren:
		return x.ID
	case *Local:
		return x.ID
	case *Assign:
		return x.ID
	case *CallStat:
		return x.ID
	case *Do:
		return x.ID
	case *While:
		return x.ID
	case *Repeat:
		return x.ID
	case *If:
		return x.ID
	case *NumFor:
		return x.ID
	case *GenFor:
		return x.ID
	case *LocalFunc:
		return x.ID
	case *FuncStat:
		return x.ID
	case *Return:
		return x.ID
	case *Break:
		return x.ID
	case *Goto:
		return x.ID
	case *Label:
		return x.ID
	}
	return 0
}
