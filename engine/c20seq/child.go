package c20seq

import (
	"bytes"
	"encoding/json"
	"fmt"
	"io"
	"os"
	"os/exec"
	"path/filepath"
	"runtime"
	"strings"
	"sync/atomic"
	"time"

	"verif/engine/core"
)

// Cases run in a child process of the check binary: the binary re-executes
// itself with C20SEQ_CHILD set and this package's init() takes over before
// main() starts.  The result comes back as JSON on file descriptor 3; the
// child's stdout (where Lua's print and io.write go) is discarded.

const childEnv = "C20SEQ_CHILD"

type childReq struct {
	Fam  string `json:"fam"`
	Idx  uint64 `json:"idx"`
	Only []int  `json:"only,omitempty"` // restrict to these merge indices
}

type childFail struct {
	Merge int    `json:"merge"`
	Kind  string `json:"kind"` // "during": o's observation in the merge; "after": solo re-run after the merge
	Got   string `json:"got"`
}

type childRes struct {
	Solo   string      `json:"solo"`
	Nondet string      `json:"nondet,omitempty"`
	Fail   []childFail `json:"fail,omitempty"` // first few, simplest merge first
	NFail  int         `json:"nfail"`          // number of failing merges
	Sig    uint64      `json:"sig"`
	Merges uint64      `json:"merges"`
	Stmts  uint64      `json:"stmts"`
}

func init() {
	v := os.Getenv(childEnv)
	if v == "" {
		return
	}
	var req childReq
	if err := json.Unmarshal([]byte(v), &req); err != nil {
		fmt.Fprintln(os.Stderr, "c20seq child: bad request:", err)
		os.Exit(3)
	}
	res := childMain(req)
	out := os.NewFile(3, "result")
	b, _ := json.Marshal(res)
	if _, err := out.Write(b); err != nil {
		fmt.Fprintln(os.Stderr, "c20seq child: cannot write result:", err)
		os.Exit(3)
	}
	out.Close()
	os.Exit(0)
}

func sentinelDir(pid int) string { return fmt.Sprintf("/tmp/c20-%d", pid) }

func childMain(req childReq) childRes {
	dir := sentinelDir(os.Getpid())
	cwd := filepath.Join(dir, "cwd")
	tmp := filepath.Join(dir, "tmp")
	os.RemoveAll(dir)
	for _, d := range []string{cwd, tmp} {
		if err := os.MkdirAll(d, 0755); err != nil {
			fmt.Fprintln(os.Stderr, "c20seq child:", err)
			os.Exit(3)
		}
	}
	defer os.RemoveAll(dir)
	os.Chdir(cwd)
	os.Setenv("TMPDIR", tmp)

	cd, err := resolve(req.Fam, req.Idx)
	if err != nil {
		fmt.Fprintln(os.Stderr, "c20seq child:", err)
		os.Exit(3)
	}
	var res childRes
	o := cd.Actors[len(cd.Actors)-1]
	// The very first thing this process runs is the observer alone.
	solo, n := runSolo(o, dir)
	res.Solo = solo
	res.Stmts += uint64(n)
	reps := 1
	if req.Fam == famSelf {
		reps = 24
	}
	for r := 0; r < reps; r++ {
		if r%2 == 1 {
			runtime.GC()
		}
		again, n := runSolo(o, dir)
		res.Stmts += uint64(n)
		if again != solo {
			res.Nondet = "first:\n" + solo + "later:\n" + again
			return res
		}
	}
	if req.Fam == famSelf {
		res.Sig = core.Hash64(solo)
		res.Merges = uint64(reps + 1)
		return res
	}
	ms := cd.merges()
	only := map[int]bool{}
	for _, k := range req.Only {
		only[k] = true
	}
	var sig strings.Builder
	for mi, m := range ms {
		if len(only) > 0 && !only[mi] {
			continue
		}
		obs, n := runSchedule(cd.Actors, m, dir)
		res.Merges++
		res.Stmts += uint64(n)
		for _, s := range obs {
			sig.WriteString(s)
		}
		failed := false
		if got := obs[len(obs)-1]; got != solo {
			failed = true
			if len(res.Fail) < 8 {
				res.Fail = append(res.Fail, childFail{Merge: mi, Kind: "during", Got: got})
			}
		}
		// recompute the solo observation: anything the merge left behind in
		// the process shows here
		post, n := runSolo(o, dir)
		res.Stmts += uint64(n)
		if post != solo && !failed {
			failed = true
			if len(res.Fail) < 8 {
				res.Fail = append(res.Fail, childFail{Merge: mi, Kind: "after", Got: post})
			}
		}
		if failed {
			res.NFail++
		}
	}
	res.Sig = core.Hash64(sig.String())
	return res
}

type childErr struct {
	kind   string // crash | hang
	detail string
}

type capBuf struct{ b bytes.Buffer }

func (c *capBuf) Write(p []byte) (int, error) {
	if c.b.Len() < 8000 {
		k := 8000 - c.b.Len()
		if k > len(p) {
			k = len(p)
		}
		c.b.Write(p[:k])
	}
	return len(p), nil
}

func spawnChild(req childReq) (*childRes, *childErr) {
	exe, err := os.Executable()
	if err != nil {
		panic(err)
	}
	rb, _ := json.Marshal(req)
	pr, pw, err := os.Pipe()
	if err != nil {
		panic(err)
	}
	cmd := exec.Command(exe)
	var env []string
	for _, e := range os.Environ() {
		if strings.HasPrefix(e, "VERIF_PROGRESS=") || strings.HasPrefix(e, "GOMAXPROCS=") || strings.HasPrefix(e, childEnv+"=") {
			continue
		}
		env = append(env, e)
	}
	cmd.Env = append(env, childEnv+"="+string(rb), "GOMAXPROCS=2", "GOTRACEBACK=single")
	cmd.ExtraFiles = []*os.File{pw}
	var stderr capBuf
	cmd.Stderr = &stderr
	if err := cmd.Start(); err != nil {
		pr.Close()
		pw.Close()
		panic(fmt.Sprintf("cannot start child: %v", err))
	}
	pw.Close()
	pid := cmd.Process.Pid
	defer os.RemoveAll(sentinelDir(pid))
	var hung atomic.Bool
	timer := time.AfterFunc(120*time.Second, func() {
		hung.Store(true)
		cmd.Process.Kill()
	})
	data, _ := io.ReadAll(pr)
	pr.Close()
	werr := cmd.Wait()
	timer.Stop()
	if hung.Load() {
		return nil, &childErr{kind: "hang", detail: "no result after 120 s\nstderr:\n" + stderr.b.String()}
	}
	var res childRes
	if werr != nil || json.Unmarshal(data, &res) != nil {
		reason := "unknown"
		for _, ln := range strings.Split(stderr.b.String(), "\n") {
			if strings.HasPrefix(ln, "fatal error:") || strings.HasPrefix(ln, "panic:") {
				reason = ln
				break
			}
		}
		return nil, &childErr{kind: "crash", detail: fmt.Sprintf("exit: %v (%s)\nstderr:\n%s", werr, reason, stderr.b.String())}
	}
	return &res, nil
}
