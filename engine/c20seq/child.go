package c20seq

import (
	"bufio"
	"bytes"
	"encoding/json"
	"fmt"
	"io"
	"os"
	"os/exec"
	"path/filepath"
	"runtime"
	"strings"
	"sync"
	"sync/atomic"
	"time"

	"verif/engine/core"
)

// Cases never run in the worker process itself.  The check binary re-executes
// itself with C20SEQ_CHILD set and this package's init() takes over before
// main() starts.  Two modes:
//
//	serve    a long-lived child: one JSON request per line on stdin, one JSON
//	         response per line on fd 3.  After every case it re-runs EVERY
//	         observer alone (the canary); if any of them no longer gives the
//	         observation it gave when the process was pristine, the process
//	         has been polluted by the case it just ran: it says so and exits,
//	         and the next case gets a new process.  (A cold process costs ten
//	         times more than a warm one, so one process per case is too slow.)
//	<json>   a one-shot child running exactly one request in a pristine
//	         process; every failure seen in a serve child is re-established
//	         this way before it is reported, so a verdict never depends on
//	         what ran earlier in the worker.
//
// The child's stdout (where Lua's print and io.write go) is discarded.

const childEnv = "C20SEQ_CHILD"

type childReq struct {
	Fam  string `json:"fam"`
	Idx  uint64 `json:"idx"`
	Only []int  `json:"only,omitempty"` // restrict to these merge indices
}

type childFail struct {
	Merge int    `json:"merge"`
	Kind  string `json:"kind"` // "during": o's observation in the merge; "after": solo re-run after the merge
	Got   string `json:"got"`
}

type childRes struct {
	Solo   string      `json:"solo"`
	Nondet string      `json:"nondet,omitempty"`
	Fail   []childFail `json:"fail,omitempty"` // first few, simplest merge first
	NFail  int         `json:"nfail"`          // number of failing merges
	Sig    uint64      `json:"sig"`
	Merges uint64      `json:"merges"`
	Stmts  uint64      `json:"stmts"`
	Retire bool        `json:"retire,omitempty"` // serve mode: the canary failed, the process exits
}

func init() {
	v := os.Getenv(childEnv)
	if v == "" {
		return
	}
	watchdog.Store(time.Now().Unix() + 900)
	out := os.NewFile(3, "result")
	dir := setupSentinel()
	// never outlive the worker, never spin for ever
	ppid := os.Getppid()
	go func() {
		for {
			time.Sleep(2 * time.Second)
			if os.Getppid() != ppid || time.Now().Unix() > watchdog.Load() {
				os.RemoveAll(dir)
				os.Exit(4)
			}
		}
	}()
	code := 0
	if v == "serve" {
		serve(out, dir)
	} else {
		var req childReq
		if err := json.Unmarshal([]byte(v), &req); err != nil {
			fmt.Fprintln(os.Stderr, "c20seq child: bad request:", err)
			code = 3
		} else {
			res := runRequest(req, dir)
			b, _ := json.Marshal(res)
			if _, err := out.Write(append(b, '\n')); err != nil {
				code = 3
			}
		}
	}
	out.Close()
	os.RemoveAll(dir)
	os.Exit(code)
}

// watchdog is the unix time after which the child kills itself.
var watchdog atomic.Int64

func sentinelDir(pid int) string { return fmt.Sprintf("/tmp/c20-%d", pid) }

func setupSentinel() string {
	dir := sentinelDir(os.Getpid())
	os.RemoveAll(dir)
	for _, d := range []string{"cwd", "tmp"} {
		if err := os.MkdirAll(filepath.Join(dir, d), 0755); err != nil {
			fmt.Fprintln(os.Stderr, "c20seq child:", err)
			os.Exit(3)
		}
	}
	os.Chdir(filepath.Join(dir, "cwd"))
	os.Setenv("TMPDIR", filepath.Join(dir, "tmp"))
	return dir
}

// cleanSentinel removes what the scripts of a case left in the directory.
func cleanSentinel(dir string) {
	for _, sub := range []string{dir, filepath.Join(dir, "tmp"), filepath.Join(dir, "cwd")} {
		ents, _ := os.ReadDir(sub)
		for _, e := range ents {
			if sub == dir && (e.Name() == "cwd" || e.Name() == "tmp") {
				continue
			}
			os.RemoveAll(filepath.Join(sub, e.Name()))
		}
	}
}

func observerActor(s Script) *actor {
	return &actor{Role: 'o', Name: s.Name, Steps: stmtSteps(s, 0)}
}

func serve(out *os.File, dir string) {
	// pristine observations of every observer, before anything else runs
	pristine := make([]string, len(Observers))
	for i, s := range Observers {
		pristine[i], _ = runSolo(observerActor(s), dir)
	}
	cleanSentinel(dir)
	in := bufio.NewReaderSize(os.Stdin, 1<<16)
	sinceCanary := 0
	for {
		line, err := in.ReadBytes('\n')
		if len(line) == 0 || err != nil {
			return // parent gone
		}
		var req childReq
		if json.Unmarshal(line, &req) != nil {
			return
		}
		watchdog.Store(time.Now().Unix() + 900)
		res := runRequest(req, dir)
		cleanSentinel(dir)
		// The canary: after a case that was not a clean pass, and after every
		// fourth case.  (A late canary cannot cause a false report: failures
		// are re-established in pristine processes.)
		sinceCanary++
		if sinceCanary >= 4 || res.Nondet != "" || len(res.Fail) > 0 {
			sinceCanary = 0
			for i, s := range Observers {
				if now, _ := runSolo(observerActor(s), dir); now != pristine[i] {
					res.Retire = true
					break
				}
			}
		}
		cleanSentinel(dir)
		b, _ := json.Marshal(res)
		if _, err := out.Write(append(b, '\n')); err != nil || res.Retire {
			return
		}
	}
}

func runRequest(req childReq, dir string) childRes {
	cd, err := resolve(req.Fam, req.Idx)
	if err != nil {
		fmt.Fprintln(os.Stderr, "c20seq child:", err)
		os.Exit(3)
	}
	var res childRes
	o := cd.Actors[len(cd.Actors)-1]
	// The first thing the case runs is the observer alone.
	solo, n := runSolo(o, dir)
	res.Solo = solo
	res.Stmts += uint64(n)
	reps := 1
	if req.Fam == famSelf {
		reps = 24
	}
	for r := 0; r < reps; r++ {
		if r%2 == 1 {
			runtime.GC()
		}
		again, n := runSolo(o, dir)
		res.Stmts += uint64(n)
		if again != solo {
			res.Nondet = "first:\n" + solo + "later:\n" + again
			return res
		}
	}
	if req.Fam == famSelf {
		res.Sig = core.Hash64(solo)
		res.Merges = uint64(reps + 1)
		return res
	}
	ms := cd.merges()
	only := map[int]bool{}
	for _, k := range req.Only {
		only[k] = true
	}
	var sig strings.Builder
	var todo []int
	for mi := range ms {
		if len(only) == 0 || only[mi] {
			todo = append(todo, mi)
		}
	}
	for k, mi := range todo {
		obs, n := runSchedule(cd.Actors, ms[mi], dir)
		res.Merges++
		res.Stmts += uint64(n)
		for _, s := range obs {
			sig.WriteString(s)
		}
		failed := false
		if got := obs[len(obs)-1]; got != solo {
			failed = true
			if len(res.Fail) < 8 {
				res.Fail = append(res.Fail, childFail{Merge: mi, Kind: "during", Got: got})
			}
		}
		// Recompute the solo observation in a new runtime: anything the
		// schedule left behind in the process shows here.  Done after the
		// first merge (the observer ran before the interferers there, so this
		// is the first look at a process in which the interferers have run to
		// completion), after the last one, and after every merge of a
		// restricted (confirmation) run.
		if k == 0 || k == len(todo)-1 || len(only) > 0 {
			post, n := runSolo(o, dir)
			res.Stmts += uint64(n)
			if post != solo && !failed {
				failed = true
				if len(res.Fail) < 8 {
					res.Fail = append(res.Fail, childFail{Merge: mi, Kind: "after", Got: post})
				}
			}
		}
		if failed {
			res.NFail++
		}
	}
	res.Sig = core.Hash64(sig.String())
	return res
}

// ---------------------------------------------------------------- parent side

type childErr struct {
	kind   string // crash | hang
	detail string
}

type capBuf struct {
	mu sync.Mutex
	b  bytes.Buffer
}

func (c *capBuf) Write(p []byte) (int, error) {
	c.mu.Lock()
	defer c.mu.Unlock()
	if c.b.Len() < 8000 {
		k := 8000 - c.b.Len()
		if k > len(p) {
			k = len(p)
		}
		c.b.Write(p[:k])
	}
	return len(p), nil
}

func (c *capBuf) take() string {
	c.mu.Lock()
	defer c.mu.Unlock()
	s := c.b.String()
	c.b.Reset()
	return s
}

type child struct {
	cmd    *exec.Cmd
	stdin  io.WriteCloser
	lines  chan []byte // one response per element; closed when the child's result pipe closes
	stderr capBuf
}

func startChild(mode string) *child {
	exe, err := os.Executable()
	if err != nil {
		panic(err)
	}
	pr, pw, err := os.Pipe()
	if err != nil {
		panic(err)
	}
	c := &child{lines: make(chan []byte, 1)}
	c.cmd = exec.Command(exe)
	var env []string
	for _, e := range os.Environ() {
		if strings.HasPrefix(e, "VERIF_PROGRESS=") || strings.HasPrefix(e, "GOMAXPROCS=") || strings.HasPrefix(e, childEnv+"=") {
			continue
		}
		env = append(env, e)
	}
	c.cmd.Env = append(env, childEnv+"="+mode, "GOMAXPROCS=1", "GOTRACEBACK=single")
	c.cmd.ExtraFiles = []*os.File{pw}
	c.cmd.Stderr = &c.stderr
	if mode == "serve" {
		c.stdin, err = c.cmd.StdinPipe()
		if err != nil {
			panic(err)
		}
	}
	if err := c.cmd.Start(); err != nil {
		panic(fmt.Sprintf("cannot start child: %v", err))
	}
	pw.Close()
	go func() {
		rd := bufio.NewReaderSize(pr, 1<<16)
		for {
			line, err := rd.ReadBytes('\n')
			if len(line) > 0 && err == nil {
				c.lines <- line
			}
			if err != nil {
				close(c.lines)
				pr.Close()
				return
			}
		}
	}()
	return c
}

// stop kills the child (if still there) and removes its sentinel directory.
func (c *child) stop() {
	if c.stdin != nil {
		c.stdin.Close()
	}
	c.cmd.Process.Kill()
	c.cmd.Wait()
	os.RemoveAll(sentinelDir(c.cmd.Process.Pid))
}

// await waits for the next response.
func (c *child) await() (*childRes, *childErr) {
	select {
	case line, ok := <-c.lines:
		var res childRes
		if !ok || json.Unmarshal(line, &res) != nil {
			werr := c.cmd.Wait()
			se := c.stderr.take()
			reason := "unknown"
			for _, ln := range strings.Split(se, "\n") {
				if strings.HasPrefix(ln, "fatal error:") || strings.HasPrefix(ln, "panic:") {
					reason = ln
					break
				}
			}
			return nil, &childErr{kind: "crash", detail: fmt.Sprintf("exit: %v (%s)\nstderr:\n%s", werr, reason, se)}
		}
		c.stderr.take()
		return &res, nil
	case <-time.After(600 * time.Second):
		return nil, &childErr{kind: "hang", detail: "no result after 600 s\nstderr:\n" + c.stderr.take()}
	}
}

// runPristine runs one request in a one-shot child.
func runPristine(req childReq) (*childRes, *childErr) {
	rb, _ := json.Marshal(req)
	c := startChild(string(rb))
	defer c.stop()
	return c.await()
}

var server *child // the worker's long-lived child (Family.Run is sequential within a process)

// runServed runs one request in the long-lived child, starting or replacing
// it as needed.
func runServed(req childReq) (*childRes, *childErr) {
	if server == nil {
		server = startChild("serve")
	}
	rb, _ := json.Marshal(req)
	if _, err := server.stdin.Write(append(rb, '\n')); err != nil {
		// it died between two cases (cannot be blamed on this one): once more
		server.stop()
		server = startChild("serve")
		if _, err := server.stdin.Write(append(rb, '\n')); err != nil {
			panic(fmt.Sprintf("cannot talk to child: %v", err))
		}
	}
	res, cerr := server.await()
	if cerr != nil || res.Retire {
		server.stop()
		server = nil
	}
	return res, cerr
}
