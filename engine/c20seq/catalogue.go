package c20seq

// Script is a named list of at most four Lua statements.  Every statement is
// compiled as its own chunk and run in the global environment of the script's
// runtime, so state is carried between statements in globals.
//
// Placeholders replaced before compilation:
//
//	$D  the sentinel directory of the process (/tmp/c20-<pid>)
//	$R  the role of the runtime in the schedule (x, y or o), so that two
//	    runtimes running the same script never name the same file
type Script struct {
	Name  string
	Stmts []string
	// Core marks the interferers that touch process-level facilities; they
	// are the ones used in the statement-granular triple family.
	Core bool
	// Active marks the observers that call a library function with a side
	// effect (seeding, collector control, files, contexts, coroutines, warn,
	// setlocale, require, load); they double as interferers in the quick
	// tier, all observers do in the thorough tier.
	Active bool
	// Triple marks the observers used in the triple families: one per
	// process-level facility.
	Triple bool
}

// Interferers mutate whatever could conceivably be shared between two
// runtimes created in one process.  The main mutation is always in the first
// two statements (the triple families truncate scripts).
var Interferers = []Script{
	{Name: "lib_string_fields", Stmts: []string{
		`string.rep = nil`,
		`string.upper = function() return "HACK" end`,
		`string.len = 7`,
		`string.format = string.reverse`,
	}},
	{Name: "globals_base", Stmts: []string{
		`_G.print = function() return "hacked" end`,
		`type = function() return "hacked" end`,
		`tostring = nil`,
		`select, pcall, error = nil, nil, nil`,
	}},
	{Name: "lib_table_fields", Stmts: []string{
		`table.insert = function() error("no insert") end`,
		`table.unpack = nil`,
		`table.concat = function() return "x" end`,
		`table.sort = table.remove`,
	}},
	{Name: "lib_math_fields", Stmts: []string{
		`math.pi = 3`,
		`math.floor = nil`,
		`math.huge, math.maxinteger = 0, 1`,
		`math.random = function() return 4 end`,
	}},
	{Name: "iter_globals", Stmts: []string{
		`next = nil`,
		`ipairs = function() return function() end end`,
		`pairs = error`,
		`rawget, rawequal, rawlen = nil, nil, nil`,
	}},
	{Name: "strmeta_replace", Stmts: []string{
		`debug.setmetatable("", {__index = function(s, k) return function() return "hijack" end end})`,
		`x = ("a"):upper()`,
		`debug.setmetatable("", {__len = function() return 99 end, __add = function() return 42 end})`,
		`debug.setmetatable("", nil)`,
	}},
	{Name: "strmeta_index", Stmts: []string{
		`getmetatable("").__index = {rep = function() return "hijack" end}`,
		`getmetatable("").__add = function() return 42 end`,
		`getmetatable("").__call = function() return 1 end`,
		`getmetatable("").__index = nil`,
	}},
	{Name: "strmeta_nil", Stmts: []string{
		`debug.setmetatable("", nil)`,
		`x = pcall(function() return ("a"):upper() end)`,
	}},
	{Name: "string_lib_meta", Stmts: []string{
		`setmetatable(string, {__index = function() return function() return "nolib" end end})`,
		`x = string.nosuch()`,
		`for k in pairs(string) do string[k] = nil end`,
	}},
	{Name: "rand_seed", Core: true, Stmts: []string{
		`math.randomseed(9)`,
		`x = math.random(100)`,
		`math.randomseed(9, 4)`,
		`y = math.random()`,
	}},
	{Name: "rand_draws", Stmts: []string{
		`a = math.random()`,
		`b = math.random(0)`,
		`c = math.random(1, 10)`,
		`d = math.random(math.mininteger, math.maxinteger)`,
	}},
	{Name: "rand_entropy_seed", Stmts: []string{
		`math.randomseed()`,
		`x = math.random(1000)`,
	}},
	{Name: "gc_stop", Core: true, Stmts: []string{
		`collectgarbage("stop")`,
		`x = collectgarbage("isrunning")`,
	}},
	{Name: "gc_stop_restart", Core: true, Stmts: []string{
		`collectgarbage("stop")`,
		`collectgarbage("restart")`,
	}},
	{Name: "gc_tuning", Stmts: []string{
		`collectgarbage("setpause", 1)`,
		`collectgarbage("setstepmul", 1)`,
		`collectgarbage("step")`,
		`collectgarbage("collect")`,
	}},
	{Name: "gc_modes", Stmts: []string{
		`collectgarbage("generational")`,
		`collectgarbage("incremental")`,
		`collectgarbage("incremental", 1, 1, 1)`,
		`collectgarbage("generational", 1, 1)`,
	}},
	{Name: "gc_finalizers", Stmts: []string{
		`setmetatable({}, {__gc = function() GCRAN = true end})`,
		`collectgarbage()`,
		`wk = setmetatable({}, {__mode = "k"}) wk[{}] = 1`,
		`collectgarbage()`,
	}},
	{Name: "io_output", Core: true, Stmts: []string{
		`io.output("$D/out_$R.txt")`,
		`io.write("hello")`,
		`io.output():close()`,
		`io.write("x")`,
	}},
	{Name: "io_input", Stmts: []string{
		`io.open("$D/in_$R.txt", "w"):write("line1\nline2\n"):close()`,
		`io.input("$D/in_$R.txt")`,
		`x = io.read("l")`,
		`io.close(io.input())`,
	}},
	{Name: "io_std_fields", Stmts: []string{
		`io.stdout:setvbuf("full", 16)`,
		`io.stdout = nil; io.stderr = io.stdin`,
		`io.write, io.type = nil, nil`,
		`io.close()`,
	}},
	{Name: "io_tmpfile_lines", Stmts: []string{
		`f = io.tmpfile()`,
		`f:write("a\nb\n") f:seek("set")`,
		`for l in f:lines() do L = l end`,
		`f:close()`,
	}},
	{Name: "io_print", Stmts: []string{
		`print("c20seq interferer print")`,
		`io.write("c20seq interferer write\n")`,
		`io.stderr:write("")`,
		`io.stdout:flush()`,
	}},
	{Name: "os_locale", Core: true, Stmts: []string{
		`os.setlocale("C")`,
		`os.setlocale("fr_FR.UTF-8")`,
		`os.setlocale("C", "numeric")`,
		`os.setlocale("")`,
	}},
	{Name: "os_misc", Stmts: []string{
		`x = os.getenv("HOME")`,
		`n = os.tmpname()`,
		`os.remove(n)`,
		`os.rename("$D/nosuch_$R", "$D/nosuch2_$R")`,
	}},
	{Name: "debug_hook_line", Core: true, Stmts: []string{
		`debug.sethook(function() HOOKS = (HOOKS or 0) + 1 end, "l")`,
		`x = 1`,
		`y = 2`,
		`debug.sethook()`,
	}},
	{Name: "debug_hook_count", Stmts: []string{
		`debug.sethook(function() HOOKS = (HOOKS or 0) + 1 end, "cr", 1)`,
		`for i = 1, 20 do x = i end`,
		`debug.sethook(error, "l")`,
		`y = 1`,
	}},
	{Name: "meta_number", Stmts: []string{
		`debug.setmetatable(1, {__index = function() return "n" end, __call = function() return 5 end, __tostring = function() return "NUM" end, __len = function() return 1 end})`,
		`x = (1).foo`,
		`y = (2)()`,
	}},
	{Name: "meta_nil", Stmts: []string{
		`debug.setmetatable(nil, {__index = function() return "nilidx" end, __tostring = function() return "NIL" end, __call = function() return 0 end})`,
		`x = (nil).foo`,
		`y = nosuchfunction()`,
	}},
	{Name: "meta_bool_func", Stmts: []string{
		`debug.setmetatable(true, {__tostring = function() return "B" end, __index = function() return "b" end})`,
		`debug.setmetatable(print, {__index = function() return "f" end})`,
		`x = (true).foo`,
		`y = print.foo`,
	}},
	{Name: "pkg_paths", Stmts: []string{
		`package.path = "$D/?.lua"`,
		`package.cpath = "x"`,
		`package.config = "\\\n:\n!\n"`,
		`package.searchers = {}`,
	}},
	{Name: "pkg_config_use", Stmts: []string{
		`package.config = "/\n:\n#\n!\n-\n"`,
		`r1 = package.searchpath("a.b", "$D/nosuch/#.lua:$D/nosuch/#/init.lua")`,
		`r2 = pcall(require, "nosuchmodule_c20")`,
	}},
	{Name: "pkg_loaded", Core: true, Stmts: []string{
		`package.loaded.string = nil`,
		`package.loaded.math = {}`,
		`package.loaded.mod = 42`,
		`package.loaded = nil`,
	}},
	{Name: "pkg_preload", Stmts: []string{
		`package.preload.mod = function() return {v = 1} end`,
		`m = require("mod")`,
		`package.preload.string = function() return "hijack" end`,
		`package.loaded.string = nil s = require("string")`,
	}},
	{Name: "pkg_require_file", Stmts: []string{
		`io.open("$D/m1.lua", "w"):write("GLOB_FROM_MOD = 1 return {a = 1}"):close() package.path = "$D/?.lua"`,
		`m = require("m1")`,
		`package.searchers[1] = nil`,
	}},
	{Name: "quota_cpu", Core: true, Stmts: []string{
		`ctx = runtime.callcontext({kill = {cpu = 2000}}, function() while true do end end)`,
		`st = ctx.status`,
	}},
	{Name: "quota_mem", Core: true, Stmts: []string{
		`ctx = runtime.callcontext({kill = {memory = 50000}}, function() local t = {} for i = 1, 1e6 do t[i] = {i} end end)`,
		`st = ctx.status`,
	}},
	{Name: "quota_soft", Stmts: []string{
		`runtime.callcontext({stop = {cpu = 500}}, function() while not runtime.contextdue() do end end)`,
		`runtime.callcontext({kill = {cpu = 10000}}, function() runtime.stopcontext() while not runtime.contextdue() do end end)`,
	}},
	{Name: "quota_flags", Stmts: []string{
		`runtime.callcontext({flags = "cpusafe memsafe iosafe timesafe"}, function() for k in pairs({1}) do end for i in ipairs({1}) do end return next({}) end)`,
		`runtime.callcontext({flags = "iosafe"}, function() return io.open("$D/x_$R", "w") end)`,
		`runtime.callcontext({flags = "timesafe"}, function() return os.setlocale("C") end)`,
	}},
	{Name: "quota_mem_recursion", Stmts: []string{
		`runtime.callcontext({kill = {memory = 1000000}}, function() local function f() return 1 + f() end return f() end)`,
		`runtime.callcontext({kill = {cpu = 50000, memory = 1000000}}, function() local s = "x" while true do s = s .. s end end)`,
	}},
	{Name: "die_error", Stmts: []string{
		`error("boom")`,
		`error({code = 2})`,
		`local t = nil; t.x = 1`,
		`error()`,
	}},
	{Name: "die_error_handlers", Stmts: []string{
		`error(setmetatable({}, {__tostring = function() error("nested") end}))`,
		`xpcall(error, function() error("in handler") end)`,
		`xpcall(function() local x <close> = setmetatable({}, {__close = function() error("in close") end}) error("body") end, function(m) return m end)`,
		`syntax error here`,
	}},
	{Name: "kill_ctx", Core: true, Stmts: []string{
		`runtime.callcontext({kill = {cpu = 100000}}, function() runtime.killcontext() end)`,
		`runtime.killcontext()`,
		`x = 1`,
		`c = runtime.callcontext({}, function() return runtime.context() end) runtime.killcontext(c)`,
	}},
	{Name: "coro_abandon", Core: true, Stmts: []string{
		`co = coroutine.create(function() coroutine.yield(1) coroutine.yield(2) end)`,
		`coroutine.resume(co)`,
		`co = nil`,
		`collectgarbage()`,
	}},
	{Name: "coro_many", Stmts: []string{
		`for i = 1, 50 do local c = coroutine.wrap(function() coroutine.yield(i) end) c() end`,
		`coroutine.wrap(function() error("in coro") end)()`,
		`coroutine.close(coroutine.create(print))`,
		`coroutine.wrap(function() coroutine.yield() end)()`,
	}},
	{Name: "coro_close_pending", Stmts: []string{
		`co = coroutine.create(function() local x <close> = setmetatable({}, {__close = function() CL = 1 end}) coroutine.yield() end)`,
		`coroutine.resume(co)`,
		`coroutine.close(co)`,
		`coroutine.resume(coroutine.running())`,
	}},
	{Name: "coro_killed_in_ctx", Stmts: []string{
		`runtime.callcontext({kill = {cpu = 3000}}, function() local co = coroutine.wrap(function() while true do coroutine.yield() end end) while true do co() end end)`,
		`x = 1`,
	}},
	{Name: "warn_on", Core: true, Stmts: []string{
		`warn("@on")`,
		`warn("c20seq ", "interferer ", "warning")`,
		`warn("@off")`,
		`warn("@on")`,
	}},
	{Name: "env_meta", Stmts: []string{
		`setmetatable(_G, {__index = function(_, k) return "ghost_" .. k end, __newindex = function() end})`,
		`x = undefined_name`,
		`_ENV = setmetatable({}, {__index = function() return nil end})`,
		`setmetatable(_G, {__metatable = "locked"})`,
	}},
	{Name: "G_wipe", Stmts: []string{
		`for k in pairs(_G) do if k ~= "_G" then _G[k] = nil end end`,
		`x = 1`,
		`_G._G = nil`,
	}},
	{Name: "intern_strings", Stmts: []string{
		`t = {} for i = 1, 5000 do t[i] = "s" .. i end`,
		`u = table.concat(t)`,
		`t = nil`,
		`collectgarbage()`,
	}},
	{Name: "deep_recursion", Stmts: []string{
		`function rec(n) if n == 0 then return 0 end return 1 + rec(n - 1) end`,
		`x = rec(5000)`,
		`function tail(n) if n == 0 then return 0 end return tail(n - 1) end y = tail(20000)`,
		`z = select("#", table.unpack({}, 1, 5000))`,
	}},
	{Name: "dump_load", Stmts: []string{
		`f = load(string.dump(function(a) return a + 1 end))`,
		`x = f(1)`,
		`load("syntax error here")`,
		`load(function() return nil end)`,
	}},
	{Name: "utf8_pack", Stmts: []string{
		`x = utf8.char(228, 8364, 0x10FFFF)`,
		`for p, c in utf8.codes(x) do P = p end`,
		`p = string.pack("<i4 z s1", 7, "ab", "c")`,
		`a, b, c = string.unpack("<i4 z s1", p)`,
	}},
	{Name: "string_heavy", Stmts: []string{
		`s = ("ab"):rep(5000)`,
		`x = s:gsub("a", "%0%0")`,
		`y = string.format("%q %5.2f %d %s", "x", 1.5, 3, tostring({}))`,
		`z = s:find("b+$")`,
	}},
	{Name: "sort_errors", Stmts: []string{
		`table.sort({3, 1, 2}, function(a, b) error("cmp") end)`,
		`table.sort({1, 2, 3, 4, 5}, function() return true end)`,
		`table.insert({}, 5, 1)`,
		`table.concat({{}})`,
	}},
}

// Observers each read one thing deterministically and emit it.  Nothing that
// depends on real time, addresses, PIDs, the environment or the moment at
// which Go's collector runs may appear here.
var Observers = []Script{
	{Name: "rand_seeded_int", Active: true, Triple: true, Stmts: []string{
		`math.randomseed(7)`,
		`emit(math.random(10^6))`,
		`emit(math.random(10^6))`,
		`emit(math.random(1, 6))`,
	}},
	{Name: "rand_seeded_float", Active: true, Stmts: []string{
		`math.randomseed(42)`,
		`emit(math.random())`,
		`emit(math.random(0))`,
	}},
	{Name: "rand_seeded_two", Active: true, Stmts: []string{
		`math.randomseed(1, 2)`,
		`emit(math.random(100))`,
		`emit(math.random(-5, 5))`,
	}},
	{Name: "gc_isrunning", Triple: true, Stmts: []string{
		`emit(collectgarbage("isrunning"))`,
		`x = 1`,
		`emit(collectgarbage("isrunning"))`,
	}},
	{Name: "gc_count_step", Active: true, Stmts: []string{
		`emit(collectgarbage("count") >= 0)`,
		`emit(math.type(collectgarbage("count")))`,
		`emit(collectgarbage("step"))`,
		`emit(collectgarbage("collect"))`,
	}},
	{Name: "gc_stop_restart_cycle", Active: true, Triple: true, Stmts: []string{
		`collectgarbage("stop")`,
		`emit(collectgarbage("isrunning"))`,
		`collectgarbage("restart")`,
		`emit(collectgarbage("isrunning"))`,
	}},
	{Name: "str_method_rep", Stmts: []string{
		`s = "x"`,
		`emit(s:rep(3))`,
		`emit(("ab"):rep(2, "-"))`,
	}},
	{Name: "str_len_upper", Stmts: []string{
		`emit(#("abc"))`,
		`emit(("a"):upper())`,
		`emit(("Hello"):lower():len())`,
	}},
	{Name: "str_meta_identity", Triple: true, Stmts: []string{
		`emit(getmetatable("").__index == string)`,
		`emit(type(getmetatable("")))`,
		`mt = getmetatable("")`,
		`emit(rawequal(mt, getmetatable("other")))`,
	}},
	{Name: "str_arith", Stmts: []string{
		`emit("10" + 5)`,
		`emit("3" * "4")`,
		`emit((pcall(function() return "a" + 1 end)))`,
		`emit((pcall(function() return ("a")() end)))`,
	}},
	{Name: "globals_types", Stmts: []string{
		`emit(type(print), type(string.rep), type(table.insert))`,
		`emit(type(_G), _G._G == _G)`,
		`emit(type(tostring), type(next), type(require))`,
	}},
	{Name: "globals_names", Triple: true, Stmts: []string{
		`n = 0 for k in pairs(_G) do n = n + 1 end`,
		`emit(n)`,
		`t = {} for k in pairs(_G) do t[#t + 1] = k end table.sort(t)`,
		`emit(table.concat(t, ","))`,
	}},
	{Name: "lib_field_names", Triple: true, Stmts: []string{
		`function keys(t) local r = {} for k in pairs(t) do r[#r + 1] = tostring(k) end table.sort(r) return table.concat(r, ",") end`,
		`emit(keys(string))`,
		`emit(keys(table), keys(math))`,
		`emit(keys(io), keys(os), keys(coroutine), keys(utf8), keys(debug), keys(package), keys(runtime))`,
	}},
	{Name: "tostring_values", Stmts: []string{
		`emit(tostring(1e15))`,
		`emit(tostring(nil), tostring(true), tostring(-0.0))`,
		`emit(tostring(2^63), tostring(10 // 3), tostring(1e100))`,
	}},
	{Name: "number_semantics", Stmts: []string{
		`emit(3 | 0, 3.0 == 3, math.type(3.0))`,
		`emit(1/0, -1/0, 0/0 ~= 0/0)`,
		`emit(7 // 2, 7 % -3, 2^0.5)`,
	}},
	{Name: "io_default_files", Triple: true, Stmts: []string{
		`emit(type(io.output()))`,
		`emit(io.type(io.stdout), io.type(io.output()))`,
		`emit(io.output() == io.stdout, io.input() == io.stdin)`,
		`emit(tostring(io.stdout) == tostring(io.output()))`,
	}},
	{Name: "io_file_roundtrip", Active: true, Stmts: []string{
		`f = io.open("$D/obs_$R.txt", "w")`,
		`f:write("abc", 12) f:close()`,
		`g = io.open("$D/obs_$R.txt")`,
		`emit(g:read("a")) g:close()`,
	}},
	{Name: "ctx_root", Triple: true, Stmts: []string{
		`c = runtime.context()`,
		`emit(c.status, tostring(c.kill), tostring(c.stop))`,
		`emit(c.kill.cpu, c.kill.memory, c.kill.millis)`,
		`emit(c.flags, c.due)`,
	}},
	{Name: "ctx_nested_cpu", Active: true, Triple: true, Stmts: []string{
		`c = runtime.callcontext({kill = {cpu = 5000}}, function() local n = 0 for i = 1, 100 do n = n + i end return n end)`,
		`emit(c.status)`,
		`emit(c.kill.cpu, c.kill.memory)`,
		`emit(c.used.cpu)`,
	}},
	{Name: "ctx_nested_mem", Active: true, Stmts: []string{
		`c = runtime.callcontext({kill = {memory = 100000}}, function() local t = {} for i = 1, 100 do t[i] = i end return #t end)`,
		`emit(c.status)`,
		`emit(c.used.memory)`,
	}},
	{Name: "ctx_killed_cpu", Active: true, Stmts: []string{
		`c = runtime.callcontext({kill = {cpu = 300}}, function() while true do end end)`,
		`emit(c.status)`,
		`emit(c.used.cpu >= 300)`,
		`emit(runtime.context().status)`,
	}},
	{Name: "coro_roundtrip", Active: true, Triple: true, Stmts: []string{
		`co = coroutine.create(function(a) local b = coroutine.yield(a + 1) return b * 2 end)`,
		`emit(coroutine.resume(co, 1))`,
		`emit(coroutine.status(co))`,
		`emit(coroutine.resume(co, 10)) emit(coroutine.status(co))`,
	}},
	{Name: "coro_wrap_gen", Active: true, Stmts: []string{
		`g = coroutine.wrap(function() for i = 1, 3 do coroutine.yield(i) end end)`,
		`emit(g())`,
		`emit(g(), g())`,
		`emit(coroutine.isyieldable(), coroutine.running())`,
	}},
	{Name: "recursion_depth_120", Active: true, Triple: true, Stmts: []string{
		`function sum(n) if n == 0 then return 0 end return n + sum(n - 1) end`,
		`emit(sum(120))`,
		`emit(sum(9), sum(11), sum(10))`,
		`emit(select("#", sum(1)))`,
	}},
	{Name: "closure_cells", Stmts: []string{
		`function mk(n) local c = 0 return function() c = c + n return c end end`,
		`f, g = mk(1), mk(10)`,
		`emit(f(), g(), f(), g())`,
		`emit(select(2, debug.getupvalue(f, 1)), select(2, debug.getupvalue(g, 1)))`,
	}},
	{Name: "debug_hook_none", Triple: true, Stmts: []string{
		`emit(debug.gethook())`,
		`x = 0 for i = 1, 10 do x = x + i end`,
		`emit(x, debug.gethook())`,
		`emit(HOOKS)`,
	}},
	{Name: "basic_type_metatables", Triple: true, Stmts: []string{
		`emit(getmetatable(1), getmetatable(nil), getmetatable(true), getmetatable(print))`,
		`emit((pcall(function() return (1).foo end)), (pcall(function() return (nil).foo end)))`,
		`emit(tostring(1), tostring(true), tostring(nil))`,
		`emit((pcall(function() return (2)() end)), (pcall(function() return #5 end)))`,
	}},
	{Name: "pkg_loaded_identity", Triple: true, Stmts: []string{
		`emit(package.loaded.string == string, package.loaded.math == math, package.loaded._G == _G)`,
		`emit(package.path, package.cpath)`,
		`emit(package.config)`,
		`emit(package.loaded.mod, package.preload.mod, package.loaded.m1)`,
	}},
	{Name: "pkg_require", Active: true, Stmts: []string{
		`emit(require("string") == string)`,
		`emit((pcall(require, "mod")))`,
		`emit((pcall(require, "m1")))`,
		`emit(#package.searchers, GLOB_FROM_MOD)`,
	}},
	{Name: "pkg_searchpath_defaults", Active: true, Stmts: []string{
		`emit(package.searchpath("a.b", "$D/nosuch/?.lua;$D/nosuch/#.lua"))`,
		`package.config = nil`,
		`emit(package.searchpath("a.b", "$D/nosuch/?.lua;$D/nosuch/#.lua"))`,
		`package.config = "/\n" emit(package.searchpath("a.b", "$D/nosuch/?.lua;$D/nosuch/#.lua"))`,
	}},
	{Name: "os_locale_query", Active: true, Triple: true, Stmts: []string{
		`ok, v = pcall(os.setlocale, nil)`,
		`emit(ok, ok and v)`,
		`emit(os.setlocale("C"))`,
		`emit(os.setlocale("xx_YY"))`,
	}},
	{Name: "os_deterministic", Stmts: []string{
		`emit(os.date("!%Y-%m-%d %H:%M:%S", 86400))`,
		`emit(os.getenv("C20SEQ_SURELY_UNSET_VARIABLE"))`,
		`emit(type(os.clock()), type(os.time()))`,
		`emit(os.difftime(10, 4))`,
	}},
	{Name: "select_unpack", Stmts: []string{
		`emit(select('#', table.unpack({1, 2, 3})))`,
		`emit(table.unpack({1, 2, 3}, 2))`,
		`emit(select(-1, 'a', 'b'))`,
		`emit(table.pack(1, nil, 3).n)`,
	}},
	{Name: "pcall_error_identity", Stmts: []string{
		`e = {}`,
		`ok, v = pcall(error, e)`,
		`emit(ok, v == e)`,
		`emit(pcall(error)) emit(select('#', pcall(error, nil)))`,
	}},
	{Name: "xpcall_handler", Stmts: []string{
		`emit(xpcall(function() error({}) end, function(m) return type(m) end))`,
		`emit(xpcall(function() return 1, 2 end, print))`,
		`emit((xpcall(error, function() error("h") end)))`,
	}},
	{Name: "load_chunk", Active: true, Stmts: []string{
		`emit(load("return 1+1")())`,
		`f = load("x_obs = ...; return x_obs")`,
		`emit(f(5), x_obs)`,
		`emit(load("syntax(") == nil, load("return _ENV == _G")())`,
	}},
	{Name: "string_format", Stmts: []string{
		`emit(string.format("%5.2f", 3.14159))`,
		`emit(string.format("%d %s %q", 42, "hi", "a\nb"))`,
		`emit(string.format("%x %5s %-5s|", 255, "ab", "cd"))`,
		`emit(string.format("%g %e", 1e20, 12345.678))`,
	}},
	{Name: "next_raw", Stmts: []string{
		`emit(next({}))`,
		`emit(next({10}))`,
		`t = {a = 1}`,
		`emit(next(t, "a"), rawlen({1, 2}), rawequal(t, t), rawget(t, "a"))`,
	}},
	{Name: "pairs_ipairs", Stmts: []string{
		`t = {10, 20, 30}`,
		`s = 0 for i, v in ipairs(t) do s = s * 100 + v end emit(s)`,
		`n = 0 for k, v in pairs(t) do n = n + k end emit(n)`,
		`emit(#t, select('#', ipairs(t)), select('#', pairs(t)))`,
	}},
	{Name: "table_funcs", Stmts: []string{
		`t = {3, 1, 2}`,
		`table.sort(t) emit(table.concat(t, ","))`,
		`table.insert(t, 1, 0) emit(table.concat(t, ","))`,
		`emit(table.remove(t), #t, table.concat(table.move(t, 1, 3, 2), ","))`,
	}},
	{Name: "string_patterns", Stmts: []string{
		`emit(("hello world"):find("o w"))`,
		`emit(("hello"):gsub("l", "L"))`,
		`emit(("a,b,c"):match("(%a),(%a)"))`,
		`for w in ("x y"):gmatch("%a") do emit(w) end`,
	}},
	{Name: "string_dump_load", Active: true, Stmts: []string{
		`f = function(a, b) return a * b + 1 end`,
		`d = string.dump(f)`,
		`emit(#d, type(d))`,
		`emit(load(d, "d", "b")(6, 7))`,
	}},
	{Name: "utf8_pack", Stmts: []string{
		`emit(utf8.char(72, 228, 8364))`,
		`emit(utf8.len("h\xc3\xa4\xc3\x9f"), utf8.codepoint("\xc3\xa4"), utf8.charpattern)`,
		`emit(string.pack("<i2", 258), string.packsize("<i4i8"))`,
		`emit(string.unpack("<i2", "\2\1"))`,
	}},
	{Name: "math_consts_funcs", Stmts: []string{
		`emit(math.pi, math.huge, math.maxinteger, math.mininteger)`,
		`emit(math.floor(2.5), math.ceil(2.5), math.abs(-3), math.max(1, 5, 3))`,
		`emit(math.tointeger(3.0), math.type(1), math.type(1.0), math.type("1"))`,
		`emit(math.fmod(7, 3), math.sqrt(16), math.ult(1, -1))`,
	}},
	{Name: "warn_state", Active: true, Triple: true, Stmts: []string{
		`warn("off-by-default")`,
		`emit(type(warn))`,
		`warn("@on") warn("visi", "ble")`,
		`warn("@off") warn("hidden")`,
	}},
	{Name: "env_no_metatable", Active: true, Stmts: []string{
		`emit(getmetatable(_G))`,
		`emit(undefined_global_xyz)`,
		`emit(rawget(_G, "x_undefined"), _ENV == _G)`,
		`new_global_abc = 5 emit(rawget(_G, "new_global_abc"))`,
	}},
	{Name: "tonumber_compare", Stmts: []string{
		`emit(tonumber("0x10"), tonumber("  12  "), tonumber("1e2"), tonumber("z", 36))`,
		`emit(tonumber("10", 2), tonumber(""), tonumber("1 2"))`,
		`emit(10 == "10", "abc" < "abd", 1 < 1.5)`,
	}},
	{Name: "loop_closures", Active: true, Stmts: []string{
		`a = {} for i = 1, 3 do a[i] = function() return i end end`,
		`emit(a[1](), a[2](), a[3]())`,
		`emit(debug.getupvalue(a[1], 1))`,
		`do local t <close> = setmetatable({}, {__close = function() emit("closed") end}) emit("body") end`,
	}},
}
