package c20seq

import (
	"bytes"
	"fmt"
	"sort"
	"strings"

	rt "github.com/arnodel/golua/runtime"

	"verif/engine/host"
)

// A step is a list of statements of one script that run back to back (one
// statement per step in the statement-granular families, the whole script in
// the block-granular family).
type step []string

// actor is one runtime's part in a schedule.
type actor struct {
	Role  byte // 'x', 'y' (interferers) or 'o' (observer)
	Name  string
	Steps []step
}

func stmtSteps(s Script, max int) []step {
	var out []step
	for i, st := range s.Stmts {
		if max > 0 && i >= max {
			break
		}
		out = append(out, step{st})
	}
	return out
}

func blockSteps(s Script, max int) []step {
	var b step
	for i, st := range s.Stmts {
		if max > 0 && i >= max {
			break
		}
		b = append(b, st)
	}
	return []step{b}
}

// merges enumerates every interleaving of actors with the given step counts
// that preserves each actor's own order, as strings over the role letters.
// Order: fewest switches between runtimes first, then lexicographic; so the
// first failing merge is a simplest one.
func merges(roles []byte, counts []int) []string {
	var out []string
	total := 0
	for _, c := range counts {
		total += c
	}
	left := append([]int(nil), counts...)
	buf := make([]byte, 0, total)
	var rec func()
	rec = func() {
		if len(buf) == total {
			out = append(out, string(buf))
			return
		}
		for k := range roles {
			if left[k] > 0 {
				left[k]--
				buf = append(buf, roles[k])
				rec()
				buf = buf[:len(buf)-1]
				left[k]++
			}
		}
	}
	rec()
	sort.SliceStable(out, func(i, j int) bool {
		si, sj := switches(out[i]), switches(out[j])
		if si != sj {
			return si < sj
		}
		return out[i] < out[j]
	})
	return out
}

func switches(m string) int {
	n := 0
	for i := 1; i < len(m); i++ {
		if m[i] != m[i-1] {
			n++
		}
	}
	return n
}

// machine is one runtime of a schedule with its observation channels.
type machine struct {
	m    *host.Machine
	warn bytes.Buffer
	next int      // next step
	obs  []string // one entry per executed statement
}

func newMachine() *machine {
	mc := &machine{m: host.NewMachine(false)}
	// The default warner is a LogWarner on os.Stderr; use the same type on a
	// per-runtime buffer so that its on/off state is observable.
	mc.m.R.SetWarner(rt.NewLogWarner(&mc.warn, "W:"))
	return mc
}

func (mc *machine) close() {
	defer func() { recover() }()
	mc.m.Close()
}

func subst(src, dir string, role byte) string {
	src = strings.ReplaceAll(src, "$D", dir)
	return strings.ReplaceAll(src, "$R", string(role))
}

// runStep executes the statements of one step, each as its own chunk.
func (mc *machine) runStep(a *actor, dir string) int {
	st := a.Steps[mc.next]
	mc.next++
	for _, src := range st {
		n := len(mc.m.Trace)
		o := mc.m.Exec(a.Name, subst(src, dir, a.Role), nil, nil)
		tr := mc.m.Trace
		if n > len(tr) {
			n = len(tr)
		}
		mc.obs = append(mc.obs, o.Status+"["+strings.Join(tr[n:], " | ")+"]")
	}
	return len(st)
}

// observation is what the embedding program sees of one runtime: status and
// emitted tuples per statement, and what its warner wrote.
func (mc *machine) observation() string {
	var sb strings.Builder
	for i, o := range mc.obs {
		fmt.Fprintf(&sb, "  stmt %d: %s\n", i+1, o)
	}
	fmt.Fprintf(&sb, "  warnings: %q\n", mc.warn.String())
	return sb.String()
}

// runSchedule creates one fresh runtime per actor (all alive at the same time,
// in one process), runs the steps in merge order and returns the observation
// of every actor and the number of statements executed.
func runSchedule(actors []*actor, merge string, dir string) (obs []string, stmts int) {
	ms := make([]*machine, len(actors))
	for i := range actors {
		ms[i] = newMachine()
	}
	for i := 0; i < len(merge); i++ {
		for k, a := range actors {
			if a.Role == merge[i] {
				stmts += ms[k].runStep(a, dir)
			}
		}
	}
	obs = make([]string, len(actors))
	for i := range ms {
		obs[i] = ms[i].observation()
		ms[i].close()
	}
	return obs, stmts
}

// runSolo runs one actor alone in the process.
func runSolo(a *actor, dir string) (string, int) {
	obs, n := runSchedule([]*actor{a}, strings.Repeat(string(a.Role), len(a.Steps)), dir)
	return obs[0], n
}

func describe(actors []*actor) string {
	var sb strings.Builder
	for _, a := range actors {
		kind := "interferer"
		if a.Role == 'o' {
			kind = "observer"
		}
		fmt.Fprintf(&sb, "runtime %c (%s %s):\n", a.Role, kind, a.Name)
		n := 0
		for i, st := range a.Steps {
			for _, s := range st {
				n++
				fmt.Fprintf(&sb, "  %c%d (stmt %d): %s\n", a.Role, i+1, n, s)
			}
		}
	}
	return sb.String()
}

// mergeSteps renders a merge as the sequence of step labels.
func mergeSteps(merge string) string {
	cnt := map[byte]int{}
	var parts []string
	for i := 0; i < len(merge); i++ {
		cnt[merge[i]]++
		parts = append(parts, fmt.Sprintf("%c%d", merge[i], cnt[merge[i]]))
	}
	return strings.Join(parts, " ")
}
