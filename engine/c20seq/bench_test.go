package c20seq

import (
	"syscall"
	"testing"
	"time"
)

func cpu() time.Duration {
	var ru syscall.Rusage
	syscall.Getrusage(syscall.RUSAGE_SELF, &ru)
	return time.Duration(ru.Utime.Nano() + ru.Stime.Nano())
}

func TestBench(t *testing.T) {
	m := newMachine()
	t0, c0 := time.Now(), cpu()
	for i := 0; i < 1000; i++ {
		m.m.Exec("x", "x = 1", nil, nil)
	}
	t.Logf("exec: wall %v cpu %v per run", time.Since(t0)/1000, (cpu()-c0)/1000)
	t0, c0 = time.Now(), cpu()
	for i := 0; i < 1000; i++ {
		m.m.Exec("x", "emit(type(print), type(string.rep), type(table.insert))", nil, nil)
	}
	t.Logf("exec2: wall %v cpu %v per run", time.Since(t0)/1000, (cpu()-c0)/1000)
	o := &actor{Role: 'o', Name: "x", Steps: stmtSteps(Observers[10], 0)}
	t0, c0 = time.Now(), cpu()
	for i := 0; i < 300; i++ {
		runSolo(o, "/tmp/c20seq")
	}
	t.Logf("solo: wall %v cpu %v per run", time.Since(t0)/300, (cpu()-c0)/300)
}
