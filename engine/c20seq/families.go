// Package c20seq is the sequential-interleaving part of check C20
// (independent runtimes are isolated): every ordered pair (A, B) of small
// scripts is run in two separate runtimes of one process under every
// statement-granular merge of the two statement sequences; B's observation
// must be identical to B's observation when it runs alone in a pristine
// process.  The oracle is differential: no expected values are written down.
//
// Cases run in child processes (see child.go): state that an interferer leaks
// into the process would otherwise survive into the next cases of the same
// worker and be blamed on innocent pairs.  A long-lived child serves cases as
// long as every observer still sees it as pristine; every failure is
// re-established in a fresh process of its own before it is reported.
package c20seq

import (
	"fmt"
	"os"
	"strconv"
	"strings"

	"verif/engine/core"
)

const (
	famPairs     = "seq.pairs"
	famSelf      = "seq.selfcheck"
	famTripBlock = "seq.triples.block"
	famTripStmt  = "seq.triples.stmt"
)

// orderedInterferers lists the interferers that touch process-level
// facilities (Core) first: a family cut short by its time budget on an
// overloaded machine loses the least interesting cases.
func orderedInterferers() []Script {
	out := coreInterferers()
	for _, s := range Interferers {
		if !s.Core {
			out = append(out, s)
		}
	}
	return out
}

// interfererPool is the "A" side of the pair family: every interferer, then
// the observers (observer/observer pairs for symmetry): in the quick tier the
// observers that call a mutating library function (Active), in the thorough
// tier all of them.
func interfererPool(all bool) []Script {
	out := orderedInterferers()
	for _, s := range Observers {
		if s.Active {
			out = append(out, s)
		}
	}
	if all {
		for _, s := range Observers {
			if !s.Active {
				out = append(out, s)
			}
		}
	}
	return out
}

// tripleObservers are the observers of the triple families; idx maps them to
// their position in Observers.
func tripleObservers() (out []Script, idx []int) {
	for i, s := range Observers {
		if s.Triple {
			out = append(out, s)
			idx = append(idx, i)
		}
	}
	return
}

func coreInterferers() []Script {
	var out []Script
	for _, s := range Interferers {
		if s.Core {
			out = append(out, s)
		}
	}
	return out
}

// tripleInterferers lists the {X, Y} of a triple family as indices into
// orderedInterferers() (X <= Y).  Block family: at least one of the two is a
// Core interferer; statement family: both are.
func tripleInterferers(fam string) [][2]int {
	ints := orderedInterferers()
	nCore := len(coreInterferers()) // Core ones come first
	var out [][2]int
	for i := 0; i < nCore; i++ {
		for j := i; j < len(ints); j++ {
			if fam == famTripStmt && j >= nCore {
				break
			}
			out = append(out, [2]int{i, j})
		}
	}
	return out
}

// caseDef is a resolved case.
type caseDef struct {
	Actors []*actor // observer last
	Key    string
	Pairs  []uint64 // for triples: the seq.pairs indices of (x,o) and (y,o)
}

func resolve(fam string, idx uint64) (*caseDef, error) {
	nObs := uint64(len(Observers))
	switch fam {
	case famPairs:
		pool := interfererPool(true) // the quick tier's pool is a prefix
		if idx >= uint64(len(pool))*nObs {
			return nil, fmt.Errorf("index out of range")
		}
		a, b := pool[idx/nObs], Observers[idx%nObs]
		return &caseDef{
			Actors: []*actor{
				{Role: 'x', Name: a.Name, Steps: stmtSteps(a, 0)},
				{Role: 'o', Name: b.Name, Steps: stmtSteps(b, 0)},
			},
			Key: fmt.Sprintf("interferer=%s observer=%s clause=interference", a.Name, b.Name),
		}, nil
	case famSelf:
		if idx >= nObs {
			return nil, fmt.Errorf("index out of range")
		}
		b := Observers[idx]
		return &caseDef{
			Actors: []*actor{{Role: 'o', Name: b.Name, Steps: stmtSteps(b, 0)}},
			Key:    fmt.Sprintf("observer=%s clause=observer-nondeterministic", b.Name),
		}, nil
	case famTripBlock, famTripStmt:
		ints := orderedInterferers()
		prs := tripleInterferers(fam)
		tobs, tidx := tripleObservers()
		nT := uint64(len(tobs))
		if idx >= uint64(len(prs))*nT {
			return nil, fmt.Errorf("index out of range")
		}
		pr := prs[idx/nT]
		x, y, b := ints[pr[0]], ints[pr[1]], tobs[idx%nT]
		bi := uint64(tidx[idx%nT]) // position in Observers, for the pair family
		cd := &caseDef{Key: fmt.Sprintf("interferers=%s+%s observer=%s clause=interference", x.Name, y.Name, b.Name)}
		if fam == famTripBlock {
			cd.Actors = []*actor{
				{Role: 'x', Name: x.Name, Steps: blockSteps(x, 3)},
				{Role: 'y', Name: y.Name, Steps: blockSteps(y, 3)},
				{Role: 'o', Name: b.Name, Steps: stmtSteps(b, 3)},
			}
		} else {
			cd.Actors = []*actor{
				{Role: 'x', Name: x.Name, Steps: stmtSteps(x, 2)},
				{Role: 'y', Name: y.Name, Steps: stmtSteps(y, 2)},
				{Role: 'o', Name: b.Name, Steps: stmtSteps(b, 3)},
			}
		}
		// positions of x and y in the pair family's pool (same order)
		cd.Pairs = []uint64{uint64(pr[0])*nObs + bi, uint64(pr[1])*nObs + bi}
		return cd, nil
	}
	return nil, fmt.Errorf("unknown family %q", fam)
}

func (cd *caseDef) merges() []string {
	roles := make([]byte, len(cd.Actors))
	counts := make([]int, len(cd.Actors))
	for i, a := range cd.Actors {
		roles[i], counts[i] = a.Role, len(a.Steps)
	}
	return merges(roles, counts)
}

func show(fam string, idx uint64) string {
	cd, err := resolve(fam, idx)
	if err != nil {
		return err.Error()
	}
	return fmt.Sprintf("%s\n%d merges, each in a schedule of %d fresh runtimes in one process",
		strings.TrimRight(describe(cd.Actors), "\n"), len(cd.merges()), len(cd.Actors))
}

// runCase is Family.Run.
func runCase(fam string, idx uint64) core.Outcome {
	cd, err := resolve(fam, idx)
	if err != nil {
		panic(err)
	}
	res, cerr := runServed(childReq{Fam: fam, Idx: idx})
	if cerr != nil || res.Nondet != "" || len(res.Fail) > 0 {
		// Anything but a clean pass is re-established in a pristine process
		// of its own, so that the verdict cannot depend on what the
		// long-lived child ran before.
		res, cerr = runPristine(childReq{Fam: fam, Idx: idx})
	}
	if cerr != nil {
		return core.Outcome{NonTrivial: true, Viol: &core.Violation{
			Key:    strings.Replace(cd.Key, "clause=interference", "clause=child-"+cerr.kind, 1),
			Detail: fmt.Sprintf("%s\nthe process running this case: %s\n%s", describe(cd.Actors), cerr.kind, cerr.detail),
		}}
	}
	out := core.Outcome{Sig: res.Sig, NonTrivial: true, States: res.Merges, Trans: res.Stmts}
	if res.Nondet != "" {
		k := cd.Key
		if fam != famSelf {
			k = fmt.Sprintf("observer=%s clause=observer-nondeterministic", cd.Actors[len(cd.Actors)-1].Name)
		}
		out.Viol = &core.Violation{Key: k, Detail: describe(cd.Actors[len(cd.Actors)-1:]) +
			"two solo runs of the observer in a pristine process differ (catalogue bug, not a golua defect):\n" + res.Nondet}
		return out
	}
	if len(res.Fail) == 0 {
		return out
	}
	// A triple whose failure is explained by one of its pairs is not reported
	// again: the pair family reports the pair (checked here, in fresh
	// processes, with the pair family's own case).
	for _, p := range cd.Pairs {
		pr, perr := runPristine(childReq{Fam: famPairs, Idx: p})
		if perr == nil && pr.Nondet == "" && len(pr.Fail) > 0 {
			return out
		}
	}
	// Find the simplest failing merge that fails on its own in a pristine
	// process (earlier merges of the same process may have left state behind).
	ms := cd.merges()
	var confirmed *childFail
	tried := 0
	seen := map[int]bool{}
	for _, f := range res.Fail {
		if seen[f.Merge] {
			continue
		}
		seen[f.Merge] = true
		if tried++; tried > 6 {
			break
		}
		r2, e2 := runPristine(childReq{Fam: fam, Idx: idx, Only: []int{f.Merge}})
		if e2 == nil && len(r2.Fail) > 0 {
			confirmed = &r2.Fail[0]
			break
		}
	}
	var sb strings.Builder
	sb.WriteString(describe(cd.Actors))
	fmt.Fprintf(&sb, "%d of %d merges fail\n", res.NFail, len(ms))
	f := res.Fail[0]
	if confirmed != nil {
		f = *confirmed
		fmt.Fprintf(&sb, "simplest failing merge, confirmed on its own in a fresh process:\n")
	} else {
		fmt.Fprintf(&sb, "no failing merge fails on its own in a fresh process: the failure needs state left in the process by the earlier merges; first failure in the full run:\n")
	}
	fmt.Fprintf(&sb, "  merge #%d: %s\n", f.Merge, mergeSteps(ms[f.Merge]))
	if f.Kind == "after" {
		sb.WriteString("the observer's part of the merge was as solo, but a NEW runtime running the observer alone afterwards differs (state left in the process):\n")
	} else {
		sb.WriteString("observation of runtime o in this merge:\n")
	}
	sb.WriteString(f.Got)
	sb.WriteString("observation of the observer alone in a pristine process:\n")
	sb.WriteString(res.Solo)
	out.Viol = &core.Violation{Key: cd.Key, Detail: sb.String()}
	return out
}

// Wall-clock budgets (seconds) of the long families; the main package may
// change them before calling Families.  C20SEQ_BUDGET_SCALE=<n> multiplies
// them (development runs on a loaded machine).
var (
	BudgetPairsQuick    = 100
	BudgetPairsThorough = 200
	BudgetTripBlock     = 240
	BudgetTripStmt      = 240
)

func scaled(b int) int {
	if k, err := strconv.Atoi(os.Getenv("C20SEQ_BUDGET_SCALE")); err == nil && k > 0 {
		return b * k
	}
	return b
}

// Families returns the sequential-interleaving families of C20.
func Families(tier string) []*core.Family {
	nObs := uint64(len(Observers))
	mk := func(name string, size uint64) *core.Family {
		return &core.Family{
			Name:        name,
			Size:        size,
			Run:         func(i uint64) core.Outcome { return runCase(name, i) },
			Show:        func(i uint64) string { return show(name, i) },
			HangSeconds: 1500,
		}
	}
	pairs := mk(famPairs, uint64(len(interfererPool(tier == "thorough")))*nObs)
	// Never fail on time.  Cases are ordered interferer x observer first,
	// observer x observer last, so a cut on an overloaded machine drops the
	// least interesting pairs (reported as exhaustive=false).
	pairs.BudgetSeconds = scaled(BudgetPairsQuick)
	if tier == "thorough" {
		pairs.BudgetSeconds = scaled(BudgetPairsThorough)
	}
	fams := []*core.Family{mk(famSelf, nObs), pairs}
	if tier == "thorough" {
		tobs, _ := tripleObservers()
		tb := mk(famTripBlock, uint64(len(tripleInterferers(famTripBlock))*len(tobs)))
		ts := mk(famTripStmt, uint64(len(tripleInterferers(famTripStmt))*len(tobs)))
		// never fail on time: a loaded machine makes the run non exhaustive
		tb.BudgetSeconds, ts.BudgetSeconds = scaled(BudgetTripBlock), scaled(BudgetTripStmt)
		fams = append(fams, tb, ts)
	}
	return fams
}

// Rule, Assumptions and Extra are offered to the check's main package.
const Rule = "for every ordered pair (A, B) of catalogue scripts (<= 4 statements each) and EVERY order-preserving merge of their statements, run in two separate runtimes of one process, one statement (own chunk, global environment) at a time: B's per-statement status, emitted tuples and warner output are identical to those of B run alone in a pristine process, both during the merge and in a new runtime created after it"

var Assumptions = []string{
	"differential oracle: the solo observation is taken as the first thing a fresh process does; no expected value is hand written",
	"observers contain nothing that depends on time, addresses, PIDs, the environment or the moment Go's collector runs (seq.selfcheck re-runs every observer 25 times)",
	"cases run in child processes; a child is reused only while all observers, re-run alone after every case, still give their pristine observations, and every failure is re-established in a fresh process of its own",
	"the file system is shared by nature: scripts use per-runtime file names inside a per-process sentinel directory",
}

func Extra(tier string) map[string]interface{} {
	return map[string]interface{}{
		"seq_interferers":      len(Interferers),
		"seq_observers":        len(Observers),
		"seq_core_interferers": len(coreInterferers()),
	}
}
