package refgc

// Runtime level monitor for C18: it reads the log of one run (the operations
// the program performed, every __gc / ReleaseResources invocation with the
// context depth and status observed at that moment, context boundaries) and
// checks the property statement clause by clause.  It does not predict when a
// dropped value is noticed; it knows what may never happen and what must have
// happened by the time a context / the runtime is closed.

import (
	"fmt"
	"sort"
	"strings"
)

// RTEvent is one log entry.
type RTEvent struct {
	Kind string // mark unmeta drop res | enter bodyend after | gc gcend rel | closebegin closeend | sep
	ID   int    // value (1-based) or context instance (1-based; 0 is the root)
	// mark
	Fin, Rel bool
	// enter
	Isolate    bool // the context has its own pool (hard limits)
	CPUTracked bool // cpu is accounted in this context
	// observed by the runtime at that moment (gc gcend rel after)
	Depth  int
	Status string
	CPU    uint64
}

type rtVal struct {
	Val
	Owner    int  // context instance that owns the latest mark; -1: closed
	Foreign  bool // marked in two live pools: the statement does not say who owns it
	Known    bool
	lastOrd  int
	relEarly bool
}

type rtCtx struct {
	inst      int
	isolate   bool
	tracked   bool
	window    bool // the body is over: close-time finalisers / releases may run
	lastGcEnd uint64
	sawGcEnd  bool
}

type RTMon struct {
	vals      map[int]*rtVal
	stack     []rtCtx
	counter   int
	closing   bool
	closed    bool
	inHandler int
	gcStart   uint64
	batchOrd  int // mark order of the previous finaliser of the current batch (0: none)
	batchOwn  int
	Bad       []string
}

func NewRTMon() *RTMon {
	return &RTMon{vals: map[int]*rtVal{}, stack: []rtCtx{{inst: 0, isolate: true}}}
}

func (m *RTMon) bad(clause string, id int) {
	m.Bad = append(m.Bad, fmt.Sprintf("%s(%c)", clause, 'a'+id-1))
}

func (m *RTMon) val(id int) *rtVal {
	v := m.vals[id]
	if v == nil {
		v = &rtVal{Owner: -1}
		v.Held = true
		m.vals[id] = v
	}
	return v
}

func (m *RTMon) top() *rtCtx { return &m.stack[len(m.stack)-1] }

// isolating returns the nearest context with its own pool.
func (m *RTMon) isolating() *rtCtx {
	for i := len(m.stack) - 1; i >= 0; i-- {
		if m.stack[i].isolate {
			return &m.stack[i]
		}
	}
	return &m.stack[0]
}

func (m *RTMon) find(inst int) *rtCtx {
	for i := range m.stack {
		if m.stack[i].inst == inst {
			return &m.stack[i]
		}
	}
	return nil
}

// closingFor: the owner of v is being closed (or the whole runtime is).
func (m *RTMon) closingFor(v *rtVal) bool {
	if m.closing {
		return true
	}
	if c := m.find(v.Owner); c != nil && c.window {
		return true
	}
	return false
}

func (m *RTMon) Feed(e RTEvent) {
	outside := m.inHandler == 0
	switch e.Kind {
	case "sep", "mark", "unmeta", "drop", "enter", "bodyend", "after", "closebegin", "closeend":
		if outside || e.Kind == "after" || e.Kind == "bodyend" || e.Kind == "closeend" {
			m.batchOrd = 0 // a new operation: the next finaliser starts a new batch
		}
	}
	switch e.Kind {
	case "sep":
	case "mark":
		if !outside {
			// a finaliser re-marked a value: the orders the current batch was
			// sorted by are no longer the current ones
			m.batchOrd = 0
		}
		v := m.val(e.ID)
		own := m.isolating()
		if v.Known && v.Owner >= 0 && v.Owner != own.inst && m.find(v.Owner) != nil {
			// marked in a second pool while the first is alive
			v.Foreign = true
		}
		v.Known = true
		v.relEarly = false
		v.Owner = own.inst
		m.counter++
		v.Order = m.counter
		v.Finalised = 0
		closing := m.closing || own.window
		switch {
		case e.Fin && !closing:
			v.F = Owed
		case e.Fin:
			v.F = Optional // "these marks have no effect" (manual §2.5.3)
		case v.F == Owed:
			v.F = Optional
		}
		switch {
		case e.Rel:
			v.R = Owed
		case v.R == Owed:
			v.R = Optional
		}
		if v.Foreign {
			if v.F == Owed {
				v.F = Optional
			}
		}
	case "unmeta":
		v := m.val(e.ID)
		if v.F == Owed {
			v.F = Optional
		}
	case "drop":
		m.val(e.ID).Held = false
	case "res":
		m.val(e.ID).Held = true
	case "enter":
		m.stack = append(m.stack, rtCtx{inst: e.ID, isolate: e.Isolate, tracked: e.CPUTracked || m.top().tracked})
	case "bodyend":
		if c := m.find(e.ID); c != nil {
			c.window = true
		}
		m.inHandler = 0
	case "after":
		m.inHandler = 0
		c := m.find(e.ID)
		if c == nil {
			m.Bad = append(m.Bad, "internal-unknown-context")
			return
		}
		// pop it; a context above it that never logged its own "after" went
		// down with it (killed)
		for len(m.stack) > 1 {
			t := m.stack[len(m.stack)-1]
			m.stack = m.stack[:len(m.stack)-1]
			if t.inst == e.ID {
				m.closeCtx(t, e.Status, e.CPU)
				break
			}
			m.closeCtx(t, "killed", 0)
		}
	case "closebegin":
		m.closing = true
	case "closeend":
		m.inHandler = 0
		m.closed = true
		for _, id := range m.ids() {
			v := m.vals[id]
			if v.F == Owed && !v.Foreign {
				m.bad("lost-finaliser", id)
			}
			if v.R == Owed {
				m.bad("lost-release", id)
			}
			v.F, v.R = None, None
		}
	case "gc":
		v := m.val(e.ID)
		if v.Foreign {
			v.F = None
			v.Finalised++
			m.inHandler = e.ID
			m.gcStart = e.CPU
			return
		}
		if v.relEarly {
			// release of a value never precedes its finalisation
			m.bad("release-before-finalise", e.ID)
		}
		switch {
		case v.F == None && v.Known && v.Owner == -1:
			// finalisers of values created in a limited context run inside it
			m.bad("finalised-after-context-end", e.ID)
		case v.F == None && v.Released > 0:
			m.bad("finalise-after-release", e.ID)
		case v.F == None && v.Finalised > 0:
			m.bad("finalised-twice", e.ID)
		case v.F == None:
			m.bad("finalise-not-owed", e.ID)
		}
		if e.Status != "live" {
			m.bad("finaliser-in-dead-context", e.ID)
		}
		for i := range m.stack {
			if m.stack[i].inst == v.Owner && e.Depth < i {
				// finalisers of values created in a limited context run inside it
				m.bad("finalised-outside-context", e.ID)
			}
		}
		if v.Held && !m.closingFor(v) && !v.Foreign {
			m.bad("held", e.ID)
		}
		if m.batchOrd != 0 && m.batchOwn == v.Owner && v.Order > m.batchOrd && !v.Foreign {
			// reverse order of marking
			m.bad("order", e.ID)
		}
		m.batchOrd, m.batchOwn = v.Order, v.Owner
		v.F = None
		v.Finalised++
		m.inHandler = e.ID
		m.gcStart = e.CPU
	case "gcend":
		if m.inHandler == e.ID {
			m.inHandler = 0
		}
		// the context the finaliser ran in is the one at the observed depth
		// (a context may already have been popped when its "after" marker
		// has not been logged yet)
		if e.Depth < len(m.stack) {
			t := &m.stack[e.Depth]
			if t.tracked {
				if e.CPU <= m.gcStart {
					m.bad("finaliser-cpu-not-charged", e.ID)
				}
				t.lastGcEnd, t.sawGcEnd = e.CPU, true
			}
		}
	case "rel":
		v := m.val(e.ID)
		if v.Foreign {
			v.R = None
			v.Released++
			return
		}
		if v.F == Owed {
			v.relEarly = true // judged when (if) the finaliser runs later
		}
		switch {
		case v.R == None && v.Released > 0:
			m.bad("released-twice", e.ID)
		case v.R == None:
			m.bad("release-not-owed", e.ID)
		}
		if v.Held && !m.closingFor(v) && e.Status != "killed" {
			// (a killed context is being torn down: close-time release)
			m.bad("released-while-held", e.ID)
		}
		if m.closed {
			m.bad("release-after-close", e.ID)
		}
		v.R = None
		v.Released++
	default:
		m.Bad = append(m.Bad, "internal-unknown-event-"+e.Kind)
	}
}

// closeCtx settles the accounts of a context that has been popped.
func (m *RTMon) closeCtx(cc rtCtx, status string, cpu uint64) {
	if cc.isolate {
		for _, id := range m.ids() {
			v := m.vals[id]
			if v.Owner != cc.inst {
				continue
			}
			if status != "killed" && v.F == Owed && !v.Foreign {
				// exactly once by the time its owning context is closed
				m.bad("lost-finaliser", id)
			}
			v.F = None // (killed: finalisers are skipped)
			if v.R == Owed && !v.Foreign {
				// releases are not skipped, even when killed
				m.bad("lost-release", id)
			}
			v.R = None
			v.Owner = -1
		}
	}
	if cc.tracked && cc.sawGcEnd && status != "killed" && cpu < cc.lastGcEnd {
		m.Bad = append(m.Bad, "finaliser-cpu-not-charged-to-context")
	}
}

func (m *RTMon) ids() []int {
	var ids []int
	for id := range m.vals {
		ids = append(ids, id)
	}
	sort.Ints(ids)
	return ids
}

// Clauses returns the distinct violated clauses, sorted.
func (m *RTMon) Clauses() []string {
	seen := map[string]bool{}
	var out []string
	for _, b := range m.Bad {
		if !seen[b] {
			seen[b] = true
			out = append(out, b)
		}
	}
	sort.Strings(out)
	return out
}

func (m *RTMon) String() string {
	var sb strings.Builder
	for _, id := range m.ids() {
		v := m.vals[id]
		fmt.Fprintf(&sb, "%c[o%d own%d F%s R%s held=%v f%d r%d] ", 'a'+id-1, v.Order, v.Owner, v.F, v.R, v.Held, v.Finalised, v.Released)
	}
	return sb.String()
}
