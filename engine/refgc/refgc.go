// Package refgc is the reference ledger for property C18 ("finalisers and
// resource release run exactly once, in order, inside their context").
//
// It is written from the property statement and the Lua 5.4 manual §2.5.3
// only (no golua import).  It is a *monitor*, not a predictor: the moment at
// which a dropped value is noticed by the collector is the environment's
// choice, so the ledger does not say when something must be handed out before
// close; it says what may never happen (twice, out of order, while held,
// release before finalise) and what must have happened by close.
package refgc

import (
	"fmt"
	"sort"
	"strings"
)

// Owe is the state of one obligation (a finalisation or a release).
type Owe uint8

const (
	None     Owe = iota // nothing may be handed out
	Owed                // exactly one hand-out is due by close, at most one before
	Optional            // at most one hand-out is permitted, none is required (the statement is silent)
)

func (o Owe) String() string { return [...]string{"-", "owed", "opt"}[o] }

// Batch kinds.
type Batch uint8

const (
	PendingFinalize Batch = iota
	PendingRelease
	AllFinalize
	AllRelease
)

func (b Batch) String() string {
	return [...]string{"pendingF", "pendingR", "allF", "allR"}[b]
}

// Phases of one pool / one context.
const (
	Running  = 0
	Closing  = 1 // the close-time finalisers have been handed out
	Released = 2 // the close-time releases have been handed out: terminal
)

// Val is the ledger line of one value.
type Val struct {
	Order     int  // position of the latest mark in the marking sequence (0 = never marked)
	F, R      Owe  // outstanding obligations
	Held      bool // the program can still reach the value
	Finalised int  // number of finalise hand-outs since the latest mark
	Released  int  // number of release hand-outs ever
}

// Ledger is the book for one pool (pool level) or one runtime (all values of
// every context; the runtime level adds ownership on top, see Owner).
type Ledger struct {
	V       []Val
	Counter int
	Phase   int
}

func New(n int) *Ledger {
	l := &Ledger{V: make([]Val, n)}
	for i := range l.V {
		l.V[i].Held = true
	}
	return l
}

func (l *Ledger) Clone() *Ledger {
	c := *l
	c.V = append([]Val(nil), l.V...)
	return &c
}

// Mark records Mark(k, flags).  fin/rel both false is "unmark": the statement
// does not speak about it (Lua has no such operation and the runtime never
// issues it), so outstanding obligations become optional.
//
// A re-mark replaces the obligations (one mark = one finalisation, however
// often it is repeated before the finaliser ran; a value finalised once owes a
// new finalisation when it is marked again -- manual §2.5.3 "resurrection").
// A flag that was owed and is not repeated in the re-mark becomes optional.
//
// Marks made after the close-time finalisers were handed out "have no effect"
// (manual §2.5.3 on lua_close) as far as finalisation goes: optional.
func (l *Ledger) Mark(k int, fin, rel bool) {
	v := &l.V[k]
	if !fin && !rel {
		if v.F == Owed {
			v.F = Optional
		}
		if v.R == Owed {
			v.R = Optional
		}
		return
	}
	l.Counter++
	v.Order = l.Counter
	v.Finalised = 0
	switch {
	case fin && l.Phase == Running:
		v.F = Owed
	case fin:
		v.F = Optional
	case v.F == Owed:
		v.F = Optional
	}
	switch {
	case rel:
		v.R = Owed
	case v.R == Owed:
		v.R = Optional
	}
}

func (l *Ledger) Drop(k int)      { l.V[k].Held = false }
func (l *Ledger) Resurrect(k int) { l.V[k].Held = true }

// Hand records that the batch ks (in the order returned) was handed out and
// returns the violated clauses, each as "<clause>(v<k+1>)".
func (l *Ledger) Hand(b Batch, ks []int) []string {
	var bad []string
	add := func(clause string, k int) { bad = append(bad, fmt.Sprintf("%s(v%d)", clause, k+1)) }
	seen := map[int]bool{}
	prev := -1
	for _, k := range ks {
		v := &l.V[k]
		if seen[k] {
			add("duplicate-in-batch", k)
			continue
		}
		seen[k] = true
		if v.Order == 0 {
			add("never-marked", k)
			continue
		}
		// every extracted batch is in reverse order of marking
		if prev >= 0 && l.V[prev].Order < v.Order {
			add("order", k)
		}
		prev = k
		pending := b == PendingFinalize || b == PendingRelease
		if pending && v.Held {
			// never while the program can still reach it
			add("held", k)
		}
		switch b {
		case PendingFinalize, AllFinalize:
			switch {
			case v.F == None && v.Released > 0:
				add("finalise-after-release", k)
			case v.F == None && v.Finalised > 0:
				add("finalised-twice", k)
			case v.F == None:
				add("finalise-not-owed", k)
			}
			v.F = None
			v.Finalised++
		case PendingRelease, AllRelease:
			switch {
			case v.R == None && v.Released > 0:
				add("released-twice", k)
			case v.R == None:
				add("release-not-owed", k)
			case v.F == Owed:
				// release of a value never precedes its finalisation when both are owed
				add("release-before-finalise", k)
			}
			v.R = None
			v.Released++
		}
	}
	switch b {
	case AllFinalize:
		for k := range l.V {
			if l.V[k].F == Owed {
				// exactly once by the time close has run
				add("lost-finaliser", k)
				l.V[k].F = None
			}
		}
		l.Phase = Closing
	case AllRelease:
		for k := range l.V {
			if l.V[k].R == Owed {
				add("lost-release", k)
				l.V[k].R = None
			}
		}
		l.Phase = Released
	}
	sort.Strings(bad)
	return bad
}

// String is the canonical rendering of the ledger (used in state keys).
func (l *Ledger) String() string {
	var sb strings.Builder
	fmt.Fprintf(&sb, "ph%d n%d", l.Phase, l.Counter)
	for k, v := range l.V {
		h := "d"
		if v.Held {
			h = "h"
		}
		fmt.Fprintf(&sb, " v%d[o%d F%s R%s %s f%d r%d]", k+1, v.Order, v.F, v.R, h, v.Finalised, v.Released)
	}
	return sb.String()
}
