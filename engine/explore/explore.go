// Package explore is the deviation-bounded depth-first explorer over choice
// tapes (iterative context bounding, Musuvathi & Qadeer): run with a prefix of
// choices, default choice 0 afterwards (0 = keep running the current goroutine
// if it is enabled), then branch on every alternative at every later point
// whose preemption cost stays within the bound.
package explore

import "fmt"

// Point is one choice point of an execution.
type Point struct {
	N              int  // number of alternatives
	RunningEnabled bool // alternative 0 is "keep running the current goroutine"
	Choice         int
	Label          string
}

// Tape replays a prefix and then always answers 0; it records every point.
type Tape struct {
	Prefix   []int
	Points   []Point
	Diverged string
}

func (t *Tape) Choose(enabled []int, runningEnabled bool, label string) int {
	i := len(t.Points)
	c := 0
	if i < len(t.Prefix) {
		c = t.Prefix[i]
		if c >= len(enabled) {
			if t.Diverged == "" {
				t.Diverged = fmt.Sprintf("replay divergence at point %d (%s): prefix wants choice %d, only %d enabled", i, label, c, len(enabled))
			}
			c = 0
		}
	}
	t.Points = append(t.Points, Point{N: len(enabled), RunningEnabled: runningEnabled, Choice: c, Label: label})
	return c
}

func (t *Tape) Choices() []int {
	out := make([]int, len(t.Points))
	for i, p := range t.Points {
		out[i] = p.Choice
	}
	return out
}

// Stats counts what an exploration covered.
type Stats struct {
	Executions uint64
	Points     uint64
	MaxPoints  int
	Capped     bool // execution cap hit: the bound was NOT completed
}

// Run explores every schedule with at most bound preemptions.  exec runs one
// execution under the given tape (which it must pass to the scheduler) and
// returns false to stop the exploration (a failure was found and recorded by
// the caller).  maxExec caps the number of executions (0 = no cap).
func Run(bound int, maxExec uint64, st *Stats, exec func(t *Tape) bool) {
	var rec func(prefix []int) bool
	rec = func(prefix []int) bool {
		if maxExec > 0 && st.Executions >= maxExec {
			st.Capped = true
			return false
		}
		t := &Tape{Prefix: prefix}
		ok := exec(t)
		st.Executions++
		st.Points += uint64(len(t.Points))
		if len(t.Points) > st.MaxPoints {
			st.MaxPoints = len(t.Points)
		}
		if !ok {
			return false
		}
		if t.Diverged != "" {
			return false
		}
		// preemption cost accumulated before point i
		cost := 0
		for i := 0; i < len(prefix) && i < len(t.Points); i++ {
			if t.Points[i].RunningEnabled && t.Points[i].Choice != 0 {
				cost++
			}
		}
		for i := len(prefix); i < len(t.Points); i++ {
			p := t.Points[i]
			c := cost
			if p.RunningEnabled {
				c++
			}
			if c <= bound {
				for alt := 1; alt < p.N; alt++ {
					np := make([]int, i+1)
					for k := 0; k < i; k++ {
						np[k] = t.Points[k].Choice
					}
					np[i] = alt
					if !rec(np) {
						return false
					}
				}
			}
			// the default choice at point i costs nothing
		}
		return true
	}
	rec(nil)
}
