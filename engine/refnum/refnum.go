// Package refnum is the reference model of Lua 5.4 number semantics (manual
// §3.1 numerals, §3.4.1-3.4.4), written without golua: integers wrap modulo
// 2^64 (math/big), floats are IEEE binary64 (Go float64, trusted), mixed
// comparison is exact (big.Rat).
package refnum

import (
	"math"
	"math/big"
	"strconv"
	"strings"

	"verif/engine/lv"
)

type Res struct {
	V      lv.V
	Err    bool   // the operation must raise an error
	Unspec bool   // the manual does not determine the result: skip
	Alt    []lv.V // other acceptable results (where the manual is loose)
}

func errRes() Res          { return Res{Err: true} }
func val(v lv.V) Res       { return Res{V: v} }
func wrap(b *big.Int) lv.V { return lv.I(int64(new(big.Int).And(b, mask64).Uint64())) }

var mask64 = new(big.Int).SetUint64(math.MaxUint64)

func bi(n int64) *big.Int { return big.NewInt(n) }

// ToNumber converts an operand for arithmetic: numbers as is, strings by the
// numeral grammar (string arithmetic coercion).
func ToNumber(v lv.V) (lv.V, bool) {
	switch v.K {
	case lv.Int, lv.Float:
		return v, true
	case lv.Str:
		return Str2Num(v.S)
	}
	return v, false
}

func tof(v lv.V) (float64, bool) { // exact conversion?
	if v.K == lv.Float {
		return v.F, true
	}
	f := float64(v.I)
	if f >= 0x1p63 {
		return f, false
	}
	return f, int64(f) == v.I
}

// FloatToInt: only floats with an exact integer value in range convert.
func FloatToInt(f float64) (int64, bool) {
	if f != math.Floor(f) || f < -0x1p63 || f >= 0x1p63 {
		return 0, false
	}
	return int64(f), true
}

// ToInteger converts for bitwise operators.
func ToInteger(v lv.V) (int64, bool) {
	n, ok := ToNumber(v)
	if !ok {
		return 0, false
	}
	if n.K == lv.Int {
		return n.I, true
	}
	return FloatToInt(n.F)
}

func floorDivBig(a, b *big.Int) *big.Int {
	q, m := new(big.Int).QuoRem(a, b, new(big.Int))
	if m.Sign() != 0 && (m.Sign() < 0) != (b.Sign() < 0) {
		q.Sub(q, big.NewInt(1))
	}
	return q
}

// Arith evaluates a binary arithmetic/bitwise operator.
func Arith(op string, x, y lv.V) Res {
	switch op {
	case "&", "|", "~", "<<", ">>":
		if !numish(x) || !numish(y) {
			return errRes()
		}
		a, ok1 := ToInteger(x)
		b, ok2 := ToInteger(y)
		if !ok1 || !ok2 {
			return errRes()
		}
		ua, ub := uint64(a), uint64(b)
		switch op {
		case "&":
			return val(lv.I(int64(ua & ub)))
		case "|":
			return val(lv.I(int64(ua | ub)))
		case "~":
			return val(lv.I(int64(ua ^ ub)))
		case "<<", ">>":
			if op == ">>" {
				if b == math.MinInt64 {
					return val(lv.I(0))
				}
				b = -b
			}
			// shift left by b (negative = right), logical, >=64 gives 0
			switch {
			case b <= -64 || b >= 64:
				return val(lv.I(0))
			case b >= 0:
				return val(lv.I(int64(ua << uint(b))))
			default:
				return val(lv.I(int64(ua >> uint(-b))))
			}
		}
	}
	a, ok1 := ToNumber(x)
	b, ok2 := ToNumber(y)
	if !ok1 || !ok2 {
		return errRes()
	}
	bothInt := a.K == lv.Int && b.K == lv.Int
	if bothInt {
		A, B := bi(a.I), bi(b.I)
		switch op {
		case "+":
			return val(wrap(A.Add(A, B)))
		case "-":
			return val(wrap(A.Sub(A, B)))
		case "*":
			return val(wrap(A.Mul(A, B)))
		case "//":
			if b.I == 0 {
				return errRes()
			}
			return val(wrap(floorDivBig(A, B)))
		case "%":
			if b.I == 0 {
				return errRes()
			}
			q := floorDivBig(A, B)
			return val(wrap(new(big.Int).Sub(A, q.Mul(q, B))))
		}
	}
	fa, ex1 := tof(a)
	fb, ex2 := tof(b)
	if !ex1 || !ex2 {
		// int -> float conversion inexact: either neighbour allowed (§3.4.3)
		return Res{Unspec: true}
	}
	switch op {
	case "+":
		return val(lv.F(fa + fb))
	case "-":
		return val(lv.F(fa - fb))
	case "*":
		return val(lv.F(fa * fb))
	case "/":
		return val(lv.F(fa / fb))
	case "//":
		r := math.Floor(fa / fb)
		res := val(lv.F(r))
		// rounding the quotient before flooring may differ from flooring
		// the exact quotient; both readings of the manual are accepted
		if ex, ok := exactFloorDiv(fa, fb); ok && !sameFloat(ex, r) {
			res.Alt = append(res.Alt, lv.F(ex))
		}
		return res
	case "%":
		return val(lv.F(modFloat(fa, fb)))
	case "^":
		r := math.Pow(fa, fb)
		// only exact cases are compared
		if !powExact(fa, fb, r) {
			return Res{Unspec: true}
		}
		return val(lv.F(r))
	}
	return Res{Unspec: true}
}

func numish(v lv.V) bool { return v.K == lv.Int || v.K == lv.Float || v.K == lv.Str }

func sameFloat(a, b float64) bool {
	if a != a && b != b {
		return true
	}
	return a == b && math.Signbit(a) == math.Signbit(b)
}

func exactFloorDiv(a, b float64) (float64, bool) {
	if math.IsInf(a, 0) || math.IsInf(b, 0) || a != a || b != b || b == 0 {
		return 0, false
	}
	q := new(big.Rat).Quo(new(big.Rat).SetFloat64(a), new(big.Rat).SetFloat64(b))
	fl := floorDivBig(q.Num(), q.Denom())
	f, _ := new(big.Float).SetInt(fl).Float64()
	if f == 0 && (a < 0) != (b < 0) {
		f = math.Copysign(0, -1)
	}
	return f, true
}

// modFloat: a - floor(a/b)*b, computed as the manual's reference
// implementation does (fmod, then adjust towards the divisor's sign).
func modFloat(a, b float64) float64 {
	m := math.Mod(a, b)
	if (m > 0 && b < 0) || (m < 0 && b > 0) {
		m += b
	}
	return m
}

func powExact(a, b, r float64) bool {
	if r != r || math.IsInf(r, 0) {
		return a != a || b != b || math.IsInf(a, 0) || math.IsInf(b, 0) || a == 0 || false
	}
	if b != math.Floor(b) || math.Abs(b) > 64 {
		return b == 0.5 && math.Sqrt(a)*math.Sqrt(a) == a
	}
	if b < 0 {
		// 1/(a^-b) exact only for powers of two
		fr, _ := math.Frexp(a)
		return math.Abs(fr) == 0.5
	}
	// exact if big-int power fits in 53 bits, for integral a
	if a != math.Floor(a) || math.Abs(a) > 1<<53 {
		fr, _ := math.Frexp(a)
		return math.Abs(fr) == 0.5 // powers of two
	}
	A, _ := new(big.Float).SetFloat64(a).Int(nil)
	p := new(big.Int).Exp(A.Abs(A), big.NewInt(int64(b)), nil)
	return p.BitLen() <= 53
}

// Unary evaluates unary minus ("-") and bitwise not ("~").
func Unary(op string, x lv.V) Res {
	switch op {
	case "-":
		n, ok := ToNumber(x)
		if !ok {
			return errRes()
		}
		if n.K == lv.Int {
			return val(wrap(new(big.Int).Neg(bi(n.I))))
		}
		return val(lv.F(-n.F))
	case "~":
		if !numish(x) {
			return errRes()
		}
		n, ok := ToInteger(x)
		if !ok {
			return errRes()
		}
		return val(lv.I(^n))
	}
	return Res{Unspec: true}
}

// Cmp returns the exact mathematical comparison of two numbers:
// -1, 0, 1, or 2 when unordered (NaN).
func Cmp(a, b lv.V) int {
	if a.K == lv.Float && a.F != a.F || b.K == lv.Float && b.F != b.F {
		return 2
	}
	inf := func(v lv.V) int {
		if v.K == lv.Float && math.IsInf(v.F, 1) {
			return 1
		}
		if v.K == lv.Float && math.IsInf(v.F, -1) {
			return -1
		}
		return 0
	}
	ia, ib := inf(a), inf(b)
	if ia != 0 || ib != 0 {
		switch {
		case ia < ib:
			return -1
		case ia > ib:
			return 1
		}
		return 0
	}
	rat := func(v lv.V) *big.Rat {
		if v.K == lv.Int {
			return new(big.Rat).SetInt64(v.I)
		}
		return new(big.Rat).SetFloat64(v.F)
	}
	return rat(a).Cmp(rat(b))
}

// Compare evaluates a relational operator on numbers (no coercion of
// strings: comparing a number with a string is an error; equality never errs).
func Compare(op string, x, y lv.V) Res {
	b := func(v bool) Res { return val(lv.V{K: lv.Bool, B: v}) }
	if op == "==" || op == "~=" {
		eq := false
		switch {
		case x.IsNum() && y.IsNum():
			eq = Cmp(x, y) == 0
		case x.K != y.K:
			eq = false
		case x.K == lv.Str:
			eq = x.S == y.S
		case x.K == lv.Nil:
			eq = true
		case x.K == lv.Bool:
			eq = x.B == y.B
		default:
			return Res{Unspec: true}
		}
		return b(eq == (op == "=="))
	}
	if x.K == lv.Str && y.K == lv.Str {
		return Res{Unspec: true} // locale collation
	}
	if !x.IsNum() || !y.IsNum() {
		return errRes()
	}
	c := Cmp(x, y)
	switch op {
	case "<":
		return b(c == -1)
	case "<=":
		return b(c == -1 || c == 0)
	case ">":
		return b(c == 1)
	case ">=":
		return b(c == 1 || c == 0)
	}
	return Res{Unspec: true}
}

// ---------------------------------------------------------------- numerals

func isSpace(c byte) bool {
	return c == ' ' || c == '\t' || c == '\n' || c == '\v' || c == '\f' || c == '\r'
}
func isDigit(c byte) bool { return c >= '0' && c <= '9' }
func isHex(c byte) bool {
	return isDigit(c) || c >= 'a' && c <= 'f' || c >= 'A' && c <= 'F'
}
func hexVal(c byte) uint64 {
	switch {
	case isDigit(c):
		return uint64(c - '0')
	case c >= 'a':
		return uint64(c-'a') + 10
	}
	return uint64(c-'A') + 10
}

// Numeral parses s as a Lua numeral without sign or blanks (lexer rules).
func Numeral(s string) (lv.V, bool) {
	if len(s) >= 2 && s[0] == '0' && (s[1] == 'x' || s[1] == 'X') {
		i := 2
		var mant uint64
		nd, frac, any := 0, false, false
		fracDigits := 0
		for ; i < len(s); i++ {
			c := s[i]
			if c == '.' && !frac {
				frac = true
				continue
			}
			if !isHex(c) {
				break
			}
			any = true
			mant = mant*16 + hexVal(c)
			nd++
			if frac {
				fracDigits++
			}
		}
		if !any {
			return lv.V{}, false
		}
		hasExp := false
		if i < len(s) && (s[i] == 'p' || s[i] == 'P') {
			hasExp = true
			j := i + 1
			if j < len(s) && (s[j] == '+' || s[j] == '-') {
				j++
			}
			if j >= len(s) || !isDigit(s[j]) {
				return lv.V{}, false
			}
			for j < len(s) && isDigit(s[j]) {
				j++
			}
			if j != len(s) {
				return lv.V{}, false
			}
		} else if i != len(s) {
			return lv.V{}, false
		}
		if !frac && !hasExp {
			return lv.I(int64(mant)), true // wraps modulo 2^64
		}
		// hex float: exact value = mantissa * 2^(exp - 4*fracDigits), correctly rounded
		body := s[2:i]
		m := new(big.Int)
		for k := 0; k < len(body); k++ {
			if body[k] == '.' {
				continue
			}
			m.Mul(m, big.NewInt(16))
			m.Add(m, big.NewInt(int64(hexVal(body[k]))))
		}
		exp := int64(0)
		if hasExp {
			e, err := strconv.ParseInt(s[i+1:], 10, 64)
			if err != nil {
				if strings.HasPrefix(s[i+1:], "-") {
					e = -1 << 40
				} else {
					e = 1 << 40
				}
			}
			exp = e
		}
		exp -= 4 * int64(fracDigits)
		if m.Sign() == 0 {
			return lv.F(0), true
		}
		if exp > 5000 {
			return lv.F(math.Inf(1)), true
		}
		if exp < -5000-int64(m.BitLen()) {
			return lv.F(0), true
		}
		r := new(big.Rat).SetInt(m)
		if exp >= 0 {
			r.Mul(r, new(big.Rat).SetInt(new(big.Int).Lsh(big.NewInt(1), uint(exp))))
		} else {
			r.Quo(r, new(big.Rat).SetInt(new(big.Int).Lsh(big.NewInt(1), uint(-exp))))
		}
		f, _ := r.Float64()
		return lv.F(f), true
	}
	// decimal
	i := 0
	nd := 0
	frac := false
	for ; i < len(s); i++ {
		c := s[i]
		if c == '.' && !frac {
			frac = true
			continue
		}
		if !isDigit(c) {
			break
		}
		nd++
	}
	if nd == 0 {
		return lv.V{}, false
	}
	hasExp := false
	if i < len(s) && (s[i] == 'e' || s[i] == 'E') {
		hasExp = true
		j := i + 1
		if j < len(s) && (s[j] == '+' || s[j] == '-') {
			j++
		}
		if j >= len(s) || !isDigit(s[j]) {
			return lv.V{}, false
		}
		for j < len(s) && isDigit(s[j]) {
			j++
		}
		if j != len(s) {
			return lv.V{}, false
		}
	} else if i != len(s) {
		return lv.V{}, false
	}
	if !frac && !hasExp {
		n, ok := new(big.Int).SetString(s, 10)
		if ok && n.IsInt64() {
			return lv.I(n.Int64()), true
		}
		// overflow: the numeral denotes a float
	}
	t := s
	if strings.HasPrefix(t, ".") {
		t = "0" + t
	}
	f, err := strconv.ParseFloat(t, 64)
	if err != nil {
		if ne, ok := err.(*strconv.NumError); ok && ne.Err == strconv.ErrRange {
			return lv.F(f), true
		}
		return lv.V{}, false
	}
	return lv.F(f), true
}

// Str2Num is the string -> number conversion of tonumber / string
// arithmetic: optional blanks, optional sign, a numeral, optional blanks.
func Str2Num(s string) (lv.V, bool) {
	i, j := 0, len(s)
	for i < j && isSpace(s[i]) {
		i++
	}
	for j > i && isSpace(s[j-1]) {
		j--
	}
	s = s[i:j]
	neg := false
	if len(s) > 0 && (s[0] == '-' || s[0] == '+') {
		neg = s[0] == '-'
		s = s[1:]
	}
	v, ok := Numeral(s)
	if !ok {
		return v, false
	}
	if neg {
		if v.K == lv.Int {
			v.I = -v.I // wraps
		} else {
			v.F = -v.F
		}
	}
	return v, true
}

// ToNumberBase is tonumber(s, base) for 2 <= base <= 36.
func ToNumberBase(s string, base int) (lv.V, bool) {
	i, j := 0, len(s)
	for i < j && isSpace(s[i]) {
		i++
	}
	for j > i && isSpace(s[j-1]) {
		j--
	}
	s = s[i:j]
	neg := false
	if len(s) > 0 && s[0] == '-' {
		neg = true
		s = s[1:]
	}
	if len(s) == 0 {
		return lv.V{}, false
	}
	var n uint64
	for k := 0; k < len(s); k++ {
		c := s[k]
		var d int
		switch {
		case isDigit(c):
			d = int(c - '0')
		case c >= 'a' && c <= 'z':
			d = int(c-'a') + 10
		case c >= 'A' && c <= 'Z':
			d = int(c-'A') + 10
		default:
			return lv.V{}, false
		}
		if d >= base {
			return lv.V{}, false
		}
		n = n*uint64(base) + uint64(d)
	}
	if neg {
		n = -n
	}
	return lv.I(int64(n)), true
}
