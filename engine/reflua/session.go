package reflua

import "verif/engine/prog"

// Session runs several chunks one after the other in ONE reference
// interpreter (shared globals, shared value numbering, cumulative trace), the
// way an embedding program loads and calls several chunks in one runtime.
// Used by check C11: a first chunk ends with an error that reaches the host,
// a second chunk then checks that the runtime is still consistent.
type Session struct{ in *Interp }

func NewSession(o Options) *Session {
	in := New()
	if o.MaxSteps > 0 {
		in.MaxSteps = o.MaxSteps
	}
	if o.MaxDepth > 0 {
		in.MaxDepth = o.MaxDepth
	}
	in.Ext = o.Ext
	return &Session{in: in}
}

// Run evaluates chunk p in the session.  Result.Trace is the cumulative trace
// of the session.  After a result with Unspec or Diverge the session must be
// abandoned.
func (s *Session) Run(p *prog.Prog, args []Value) (res Result) {
	in := s.in
	defer func() {
		res.Trace = append([]string{}, in.Trace...)
		if r := recover(); r != nil {
			switch x := r.(type) {
			case Unspec:
				res.Unspec = x.Why
			case Diverge:
				res.Diverge = true
			case LuaError:
				res.Status = "err"
				res.Err = in.Canon.Value(x.V)
			default:
				panic(r)
			}
		}
	}()
	f := &Func{proto: &prog.Func{IsVararg: true, Body: p.Body}, name: "main chunk"}
	vals := in.call(f, args, 0, false)
	res.Status = "ok"
	for _, v := range vals {
		res.Results = append(res.Results, in.Canon.Value(v))
	}
	return
}

// Close releases the goroutines of coroutines that are still suspended.
func (s *Session) Close() { s.in.killCoros() }
