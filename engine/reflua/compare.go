package reflua

import (
	"fmt"
	"strconv"
	"strings"
)

// Observed is what a real implementation showed for one run, in the canonical
// spelling of host.Canon (nil | true | false | i:<n> | f:<x> | s:"quoted" |
// T#k | F | C#k).  It is a plain struct so that this package does not depend
// on the implementation under test.
type Observed struct {
	Trace   []string // one entry per emit(...) call, values joined by ","
	Status  string   // "ok" or "err" (anything else never matches)
	Results []string
	Err     string
}

// LineFn maps a prog node id to the line it occupies in the rendering that
// was executed.  exact=false means the position is ambiguous in that
// rendering (node spread over several lines): only the shape
// "chunk:<digits>: " is then required.
type LineFn func(node int) (line int, exact bool)

// Compare checks an observation against the reference result.  It returns
// "" on agreement, else the violated clause ("trace[3]", "status", "results",
// "error") followed by a short explanation.
//
// What is compared (Lua 5.4 manual):
//   - every emit tuple, every result, the error value, exactly;
//   - a string produced by the "VM" or a library function (reference spelling
//     RTERR@n) matches any string: the manual fixes no message text;
//   - a string raised by error(msg, 1|2) must read chunkName:LINE: msg, where
//     LINE is checked when the rendering makes it unambiguous.
func Compare(ref Result, got Observed, chunkName string, lines LineFn) string {
	n := len(ref.Trace)
	if len(got.Trace) < n {
		n = len(got.Trace)
	}
	for i := 0; i < n; i++ {
		if !MatchCanon(ref.Trace[i], got.Trace[i], chunkName, lines) {
			return fmt.Sprintf("trace[%d] expected %s got %s", i, ref.Trace[i], got.Trace[i])
		}
	}
	if len(ref.Trace) != len(got.Trace) {
		if len(ref.Trace) > n {
			return fmt.Sprintf("trace[%d] expected %s got end of trace", n, ref.Trace[n])
		}
		return fmt.Sprintf("trace[%d] expected end of trace got %s", n, got.Trace[n])
	}
	if ref.Status != got.Status {
		return fmt.Sprintf("status expected %s got %s %s", ref.Status, got.Status, got.Err)
	}
	if ref.Status == "ok" {
		if !MatchCanon(strings.Join(ref.Results, ","), strings.Join(got.Results, ","), chunkName, lines) {
			return fmt.Sprintf("results expected (%s) got (%s)", strings.Join(ref.Results, ","), strings.Join(got.Results, ","))
		}
		return ""
	}
	if !MatchCanon(ref.Err, got.Err, chunkName, lines) {
		return fmt.Sprintf("error expected %s got %s", ref.Err, got.Err)
	}
	return ""
}

// quoted position marker as it appears inside a strconv.Quote'd string
const qMark = `\x01@`
const qEnd = `\x01`

// MatchCanon matches one canonical value list of the reference against the
// implementation's spelling (see Compare).
func MatchCanon(r, g, chunkName string, lines LineFn) bool {
	i, j := 0, 0
	for i < len(r) {
		switch {
		case strings.HasPrefix(r[i:], "RTERR@"):
			i += len("RTERR@")
			for i < len(r) && r[i] >= '0' && r[i] <= '9' {
				i++
			}
			// any string value on the other side
			if !strings.HasPrefix(g[j:], `s:"`) {
				return false
			}
			j += 3
			for {
				if j >= len(g) {
					return false
				}
				if g[j] == '\\' {
					j += 2
					continue
				}
				if g[j] == '"' {
					j++
					break
				}
				j++
			}
		case strings.HasPrefix(r[i:], qMark):
			i += len(qMark)
			k := i
			for k < len(r) && r[k] >= '0' && r[k] <= '9' {
				k++
			}
			node, _ := strconv.Atoi(r[i:k])
			if !strings.HasPrefix(r[k:], qEnd) {
				return false
			}
			i = k + len(qEnd)
			// expect chunkName ":" digits ": "
			if !strings.HasPrefix(g[j:], chunkName+":") {
				return false
			}
			j += len(chunkName) + 1
			k = j
			for k < len(g) && g[k] >= '0' && g[k] <= '9' {
				k++
			}
			if k == j || !strings.HasPrefix(g[k:], ": ") {
				return false
			}
			gotLine, _ := strconv.Atoi(g[j:k])
			j = k + 2
			if lines != nil {
				if want, exact := lines(node); exact && want != gotLine {
					return false
				}
			}
		default:
			if j >= len(g) || r[i] != g[j] {
				return false
			}
			i++
			j++
		}
	}
	return j == len(g)
}
