package reflua

import (
	"math"
	"strings"

	"verif/engine/lv"
	"verif/engine/refnum"
)

type bfn = func(in *Interp, args []Value, node int) []Value

func arg(args []Value, i int) Value {
	if i < len(args) {
		return args[i]
	}
	return nil
}

func (in *Interp) reg(t *Table, name string, f bfn) *Func {
	fn := &Func{builtin: f, name: name}
	t.rawset(name, fn)
	return fn
}

// liberr raises an error of a library function (message text not specified).
func (in *Interp) liberr(what string) { in.raise(&RTErr{Node: 0, What: what}) }

func (in *Interp) needTable(v Value, what string) *Table {
	t, ok := v.(*Table)
	if !ok {
		in.liberr(what + ": table expected")
	}
	return t
}

func (in *Interp) toInt(v Value, what string) int64 {
	switch x := v.(type) {
	case int64:
		return x
	case float64:
		if n, ok := refnum.FloatToInt(x); ok {
			return n
		}
		in.liberr(what + ": number has no integer representation")
	case string:
		unspec("string argument where an integer is expected")
	case *RTErr:
		unspec("VM error message as an argument")
	}
	in.liberr(what + ": number expected")
	return 0
}

func (in *Interp) installBuiltins() {
	G := in.Globals
	G.rawset("_G", G)
	in.reg(G, "emit", func(in *Interp, args []Value, node int) []Value {
		in.Trace = append(in.Trace, in.Canon.Values(args))
		return nil
	})
	in.reg(G, "tick", func(in *Interp, args []Value, node int) []Value { return nil })
	in.reg(G, "type", func(in *Interp, args []Value, node int) []Value {
		if len(args) == 0 {
			in.liberr("type: value expected")
		}
		return []Value{typeName(args[0])}
	})
	in.reg(G, "pcall", func(in *Interp, args []Value, node int) []Value {
		if len(args) == 0 {
			in.liberr("pcall: value expected")
		}
		return in.protected(args[0], args[1:], pframe{})
	})
	in.reg(G, "xpcall", func(in *Interp, args []Value, node int) []Value {
		if len(args) < 2 {
			in.liberr("xpcall: value expected")
		}
		if _, ok := args[1].(*Func); !ok {
			unspec("xpcall with a non-function handler")
		}
		return in.protected(args[0], args[2:], pframe{isX: true, handler: args[1]})
	})
	in.reg(G, "error", func(in *Interp, args []Value, node int) []Value {
		v := arg(args, 0)
		level := int64(1)
		if len(args) > 1 && args[1] != nil {
			level = in.toInt(args[1], "error")
		}
		if s, ok := v.(string); ok && level > 0 {
			if tainted(s) {
				unspec("re-raising a positioned message with a new position")
			}
			fr := in.cur.frame
			switch {
			case node == 0 || fr == nil:
				unspec("error position when error is not called from Lua code")
			case level == 1:
				v = posPrefix(node) + s
			case level == 2:
				if fr.viaMeta || fr.tail || fr.callNode == 0 || fr.parent == nil {
					unspec("error level 2 through a metamethod, tail call, library or host caller")
				}
				v = posPrefix(fr.callNode) + s
			default:
				unspec("error level > 2")
			}
		}
		if _, ok := v.(*RTErr); ok && level > 0 {
			unspec("re-raising a VM error message with a position")
		}
		in.raise(v)
		return nil
	})
	in.reg(G, "assert", func(in *Interp, args []Value, node int) []Value {
		if len(args) == 0 {
			in.liberr("assert: value expected")
		}
		if truth(args[0]) {
			return args
		}
		if len(args) > 1 {
			in.raise(args[1])
		}
		in.raise("assertion failed!")
		return nil
	})
	in.reg(G, "select", func(in *Interp, args []Value, node int) []Value {
		if s, ok := arg(args, 0).(string); ok && s == "#" {
			return []Value{int64(len(args) - 1)}
		}
		n := in.toInt(arg(args, 0), "select")
		cnt := int64(len(args) - 1)
		if n < 0 {
			n = cnt + n + 1
			if n < 1 {
				in.liberr("select: index out of range")
			}
		} else if n == 0 {
			in.liberr("select: index out of range")
		}
		if n > cnt {
			return nil
		}
		return args[n:]
	})
	in.reg(G, "rawget", func(in *Interp, args []Value, node int) []Value {
		return []Value{in.needTable(arg(args, 0), "rawget").rawget(arg(args, 1))}
	})
	in.reg(G, "rawset", func(in *Interp, args []Value, node int) []Value {
		t := in.needTable(arg(args, 0), "rawset")
		k := arg(args, 1)
		if k == nil {
			in.liberr("rawset: index is nil")
		}
		if f, ok := k.(float64); ok && f != f {
			in.liberr("rawset: index is NaN")
		}
		if len(args) < 3 {
			in.liberr("rawset: value expected")
		}
		t.rawset(k, args[2])
		return []Value{t}
	})
	in.reg(G, "rawequal", func(in *Interp, args []Value, node int) []Value {
		if len(args) < 2 {
			in.liberr("rawequal: value expected")
		}
		return []Value{rawEqual(args[0], args[1])}
	})
	in.reg(G, "rawlen", func(in *Interp, args []Value, node int) []Value {
		switch x := arg(args, 0).(type) {
		case *Table:
			return []Value{x.length()}
		case string:
			if tainted(x) {
				unspec("rawlen of a positioned message")
			}
			return []Value{int64(len(x))}
		case *RTErr:
			unspec("rawlen of a VM error message")
		}
		in.liberr("rawlen: table or string expected")
		return nil
	})
	in.reg(G, "setmetatable", func(in *Interp, args []Value, node int) []Value {
		t := in.needTable(arg(args, 0), "setmetatable")
		if len(args) < 2 {
			in.liberr("setmetatable: nil or table expected")
		}
		var mt *Table
		if args[1] != nil {
			mt = in.needTable(args[1], "setmetatable")
		}
		if t.meta != nil && t.meta.rawget("__metatable") != nil {
			in.liberr("cannot change a protected metatable")
		}
		if mt != nil && mt.rawget("__gc") != nil {
			unspec("__gc")
		}
		t.meta = mt
		return []Value{t}
	})
	in.reg(G, "getmetatable", func(in *Interp, args []Value, node int) []Value {
		if len(args) == 0 {
			in.liberr("getmetatable: value expected")
		}
		var mt *Table
		switch x := args[0].(type) {
		case *Table:
			mt = x.meta
		case string, *RTErr:
			mt = in.StringMT
		}
		if mt == nil {
			return []Value{nil}
		}
		if p := mt.rawget("__metatable"); p != nil {
			return []Value{p}
		}
		return []Value{mt}
	})
	next := in.reg(G, "next", func(in *Interp, args []Value, node int) []Value {
		t := in.needTable(arg(args, 0), "next")
		if len(t.hash) > 1 {
			unspec("traversal order of a table with more than one key")
		}
		k := arg(args, 1)
		if k == nil {
			for kk, v := range t.hash {
				return []Value{kk, v}
			}
			return []Value{nil}
		}
		if t.rawget(k) == nil {
			unspec("next with a key that is not in the table")
		}
		return []Value{nil}
	})
	ipairsIter := &Func{name: "ipairs_iter", builtin: func(in *Interp, args []Value, node int) []Value {
		i := in.toInt(arg(args, 1), "ipairs") + 1
		v := in.index(arg(args, 0), i, node)
		if v == nil {
			return []Value{nil}
		}
		return []Value{i, v}
	}}
	in.reg(G, "ipairs", func(in *Interp, args []Value, node int) []Value {
		if len(args) == 0 {
			in.liberr("ipairs: table expected")
		}
		return []Value{ipairsIter, args[0], int64(0)}
	})
	in.reg(G, "pairs", func(in *Interp, args []Value, node int) []Value {
		if len(args) == 0 {
			in.liberr("pairs: table expected")
		}
		if h := in.metaOf(args[0], "__pairs"); h != nil {
			r := in.call(h, []Value{args[0]}, node, true)
			return []Value{arg(r, 0), arg(r, 1), arg(r, 2)}
		}
		in.needTable(args[0], "pairs")
		return []Value{next, args[0], nil}
	})
	in.reg(G, "tostring", func(in *Interp, args []Value, node int) []Value {
		if len(args) == 0 {
			in.liberr("tostring: value expected")
		}
		v := args[0]
		if h := in.metaOf(v, "__tostring"); h != nil {
			if _, isS := v.(string); !isS {
				r := first(in.call(h, []Value{v}, node, true))
				if _, ok := r.(string); !ok {
					in.liberr("'__tostring' must return a string")
				}
				return []Value{r}
			}
		}
		switch x := v.(type) {
		case nil:
			return []Value{"nil"}
		case bool:
			if x {
				return []Value{"true"}
			}
			return []Value{"false"}
		case int64:
			s, _ := concatStr(x)
			return []Value{s}
		case string, *RTErr:
			return []Value{x}
		}
		unspec("tostring of a float or reference value")
		return nil
	})
	in.reg(G, "tonumber", func(in *Interp, args []Value, node int) []Value {
		if len(args) == 0 {
			in.liberr("tonumber: value expected")
		}
		if len(args) > 1 && args[1] != nil {
			unspec("tonumber with a base")
		}
		switch x := args[0].(type) {
		case int64, float64:
			return []Value{x}
		case string:
			if tainted(x) {
				unspec("tonumber of a positioned message")
			}
			n, ok := refnum.Str2Num(x)
			if !ok {
				return []Value{nil}
			}
			if n.K == lv.Float && n.F == -0x1p63 {
				unspec("tonumber of -2^63 spelled as a decimal integer")
			}
			return []Value{fromLV(n)}
		case *RTErr:
			unspec("tonumber of a VM error message")
		}
		return []Value{nil}
	})

	// math
	M := NewTable()
	G.rawset("math", M)
	M.rawset("maxinteger", int64(math.MaxInt64))
	M.rawset("mininteger", int64(math.MinInt64))
	M.rawset("huge", math.Inf(1))
	in.reg(M, "type", func(in *Interp, args []Value, node int) []Value {
		if len(args) == 0 {
			in.liberr("math.type: value expected")
		}
		switch args[0].(type) {
		case int64:
			return []Value{"integer"}
		case float64:
			return []Value{"float"}
		}
		return []Value{nil}
	})
	in.reg(M, "tointeger", func(in *Interp, args []Value, node int) []Value {
		switch x := arg(args, 0).(type) {
		case int64:
			return []Value{x}
		case float64:
			if n, ok := refnum.FloatToInt(x); ok {
				return []Value{n}
			}
			return []Value{nil}
		case string, *RTErr:
			unspec("math.tointeger of a string")
		}
		if len(args) == 0 {
			in.liberr("math.tointeger: value expected")
		}
		return []Value{nil}
	})

	// string (minimal)
	S := NewTable()
	G.rawset("string", S)
	in.StringMT = NewTable()
	in.StringMT.rawset("__index", S)
	for _, ev := range []string{"__add", "__sub", "__mul", "__div", "__mod", "__pow", "__unm", "__idiv"} {
		// present (so that getmetatable("").__add is non-nil); arithmetic on
		// strings is implemented directly in binop
		in.StringMT.rawset(ev, &Func{name: ev, builtin: func(in *Interp, args []Value, node int) []Value {
			unspec("direct call of a string arithmetic metamethod")
			return nil
		}})
	}
	str := func(in *Interp, v Value, what string) string {
		switch x := v.(type) {
		case string:
			if tainted(x) {
				unspec("string function on a positioned message")
			}
			return x
		case int64:
			s, _ := concatStr(x)
			return s
		case float64:
			unspec("float to string conversion format")
		case *RTErr:
			unspec("string function on a VM error message")
		}
		in.liberr(what + ": string expected")
		return ""
	}
	in.reg(S, "len", func(in *Interp, args []Value, node int) []Value {
		return []Value{int64(len(str(in, arg(args, 0), "len")))}
	})
	in.reg(S, "upper", func(in *Interp, args []Value, node int) []Value {
		return []Value{asciiMap(str(in, arg(args, 0), "upper"), 'a', 'z', -32)}
	})
	in.reg(S, "lower", func(in *Interp, args []Value, node int) []Value {
		return []Value{asciiMap(str(in, arg(args, 0), "lower"), 'A', 'Z', 32)}
	})
	in.reg(S, "reverse", func(in *Interp, args []Value, node int) []Value {
		s := []byte(str(in, arg(args, 0), "reverse"))
		for i, j := 0, len(s)-1; i < j; i, j = i+1, j-1 {
			s[i], s[j] = s[j], s[i]
		}
		return []Value{string(s)}
	})
	in.reg(S, "rep", func(in *Interp, args []Value, node int) []Value {
		s := str(in, arg(args, 0), "rep")
		n := in.toInt(arg(args, 1), "rep")
		sep := ""
		if len(args) > 2 && args[2] != nil {
			sep = str(in, args[2], "rep")
		}
		if n <= 0 {
			return []Value{""}
		}
		if n > 1000 {
			unspec("large string.rep")
		}
		parts := make([]string, n)
		for i := range parts {
			parts[i] = s
		}
		return []Value{strings.Join(parts, sep)}
	})
	in.reg(S, "sub", func(in *Interp, args []Value, node int) []Value {
		s := str(in, arg(args, 0), "sub")
		l := int64(len(s))
		i := in.toInt(arg(args, 1), "sub")
		j := int64(-1)
		if len(args) > 2 && args[2] != nil {
			j = in.toInt(args[2], "sub")
		}
		if i < 0 {
			i = l + i + 1
			if i < 1 {
				i = 1
			}
		} else if i == 0 {
			i = 1
		}
		if j < 0 {
			j = l + j + 1
		} else if j > l {
			j = l
		}
		if i > j {
			return []Value{""}
		}
		return []Value{s[i-1 : j]}
	})
	in.reg(S, "byte", func(in *Interp, args []Value, node int) []Value {
		s := str(in, arg(args, 0), "byte")
		if len(args) > 1 && args[1] != nil || len(args) > 2 {
			i := in.toInt(args[1], "byte")
			if len(args) > 2 || i < 1 || i > int64(len(s)) {
				unspec("string.byte with range arguments")
			}
			return []Value{int64(s[i-1])}
		}
		if len(s) == 0 {
			return nil
		}
		return []Value{int64(s[0])}
	})

	// table (minimal)
	T := NewTable()
	G.rawset("table", T)
	in.reg(T, "pack", func(in *Interp, args []Value, node int) []Value {
		t := NewTable()
		for i, v := range args {
			t.rawset(int64(i+1), v)
		}
		t.rawset("n", int64(len(args)))
		return []Value{t}
	})
	in.reg(T, "unpack", func(in *Interp, args []Value, node int) []Value {
		t := arg(args, 0)
		i := int64(1)
		if len(args) > 1 && args[1] != nil {
			i = in.toInt(args[1], "unpack")
		}
		var j int64
		if len(args) > 2 && args[2] != nil {
			j = in.toInt(args[2], "unpack")
		} else {
			j = in.toInt(in.unop("#", t, node), "unpack")
		}
		if j-i > 200 {
			unspec("large unpack")
		}
		var out []Value
		for k := i; k <= j; k++ {
			out = append(out, in.index(t, k, node))
		}
		return out
	})
	in.reg(T, "insert", func(in *Interp, args []Value, node int) []Value {
		if len(args) != 2 {
			unspec("table.insert with a position")
		}
		t := in.needTable(args[0], "insert")
		n := in.toInt(in.unop("#", t, node), "insert")
		in.setIndex(t, n+1, args[1], node)
		return nil
	})
	in.reg(T, "remove", func(in *Interp, args []Value, node int) []Value {
		if len(args) != 1 {
			unspec("table.remove with a position")
		}
		t := in.needTable(args[0], "remove")
		n := in.toInt(in.unop("#", t, node), "remove")
		if n == 0 {
			return []Value{in.index(t, n, node)}
		}
		v := in.index(t, n, node)
		in.setIndex(t, n, nil, node)
		return []Value{v}
	})

	in.installCoroutine()

	// names of the real standard library that this model does not implement
	miss := func(t *Table, names ...string) {
		t.missing = map[string]bool{}
		for _, n := range names {
			if t.rawget(n) == nil {
				t.missing[n] = true
			}
		}
	}
	miss(G, "print", "require", "load", "loadfile", "dofile", "collectgarbage", "os", "io", "debug", "utf8",
		"package", "_VERSION", "warn")
	miss(S, "format", "find", "match", "gmatch", "gsub", "char", "pack", "unpack", "packsize", "dump")
	miss(T, "concat", "sort", "move")
	miss(M, "floor", "ceil", "abs", "max", "min", "sqrt", "pi", "fmod", "modf", "random", "randomseed", "ult",
		"exp", "log", "sin", "cos", "tan", "asin", "acos", "atan")
}

func asciiMap(s string, lo, hi byte, d int) string {
	b := []byte(s)
	for i, c := range b {
		if c >= lo && c <= hi {
			b[i] = byte(int(c) + d)
		}
	}
	return string(b)
}

// protected runs f(args) behind a protected-call boundary.
func (in *Interp) protected(f Value, args []Value, pf pframe) (res []Value) {
	t := in.cur
	t.pstack = append(t.pstack, pf)
	n := len(t.pstack)
	savedFrame, savedDepth, savedClosing := t.frame, t.depth, t.closing
	defer func() {
		// t may have been switched by a coroutine resume in between, but the
		// boundary always unwinds on the thread it was created on
		t.pstack = t.pstack[:n-1]
		if r := recover(); r != nil {
			if le, ok := r.(LuaError); ok {
				t.frame, t.depth, t.closing = savedFrame, savedDepth, savedClosing
				in.cur = t
				res = []Value{false, le.V}
				return
			}
			panic(r)
		}
	}()
	t.closing = 0
	out := in.call(f, args, 0, false)
	t.closing = savedClosing
	return append([]Value{true}, out...)
}
