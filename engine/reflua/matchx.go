package reflua

import (
	"fmt"
	"strconv"
	"strings"
)

// Matcher is the extended comparison used by check C11.  On top of
// Compare/MatchCanon it
//   - requires a VM-generated runtime error (reference spelling RTERR@n, n != 0)
//     to be a string that starts with "chunk:LINE:" when RTLines says the line
//     of node n is unambiguous (the rest of the text is never compared);
//   - lets the reference value ANY match any single value.
type Matcher struct {
	Chunk   string
	Lines   LineFn // positions of error(msg, 1|2) messages
	RTLines LineFn // positions of VM-generated errors (nil: not checked)
}

// Compare is reflua.Compare with the extended value matching.
func (m Matcher) Compare(ref Result, got Observed) string {
	n := len(ref.Trace)
	if len(got.Trace) < n {
		n = len(got.Trace)
	}
	for i := 0; i < n; i++ {
		if !m.Match(ref.Trace[i], got.Trace[i]) {
			return fmt.Sprintf("trace[%d] expected %s got %s", i, ref.Trace[i], got.Trace[i])
		}
	}
	if len(ref.Trace) != len(got.Trace) {
		if len(ref.Trace) > n {
			return fmt.Sprintf("trace[%d] expected %s got end of trace", n, ref.Trace[n])
		}
		return fmt.Sprintf("trace[%d] expected end of trace got %s", n, got.Trace[n])
	}
	if ref.Status != got.Status {
		return fmt.Sprintf("status expected %s got %s %s", ref.Status, got.Status, got.Err)
	}
	if ref.Status == "ok" {
		if !m.Match(strings.Join(ref.Results, ","), strings.Join(got.Results, ",")) {
			return fmt.Sprintf("results expected (%s) got (%s)", strings.Join(ref.Results, ","), strings.Join(got.Results, ","))
		}
		return ""
	}
	if !m.Match(ref.Err, got.Err) {
		return fmt.Sprintf("error expected %s got %s", ref.Err, got.Err)
	}
	return ""
}

// quotedEnd returns the index just after the closing quote of the
// strconv.Quote'd string whose opening quote is at g[j-1], or -1.
func quotedEnd(g string, j int) int {
	for {
		if j >= len(g) {
			return -1
		}
		if g[j] == '\\' {
			j += 2
			continue
		}
		if g[j] == '"' {
			return j + 1
		}
		j++
	}
}

// Match matches one canonical value list of the reference against the
// implementation's spelling.
func (m Matcher) Match(r, g string) bool {
	i, j := 0, 0
	for i < len(r) {
		switch {
		case strings.HasPrefix(r[i:], "ANY") && (i+3 == len(r) || r[i+3] == ',') && (i == 0 || r[i-1] == ','):
			i += 3
			// any single value on the other side
			if j >= len(g) {
				return false
			}
			if strings.HasPrefix(g[j:], `s:"`) {
				j = quotedEnd(g, j+3)
				if j < 0 {
					return false
				}
			} else {
				for j < len(g) && g[j] != ',' {
					j++
				}
			}
		case strings.HasPrefix(r[i:], "RTERR@") && (i == 0 || r[i-1] == ','):
			i += len("RTERR@")
			k := i
			for i < len(r) && r[i] >= '0' && r[i] <= '9' {
				i++
			}
			node, _ := strconv.Atoi(r[k:i])
			// any string value on the other side
			if !strings.HasPrefix(g[j:], `s:"`) {
				return false
			}
			start := j + 3
			j = quotedEnd(g, start)
			if j < 0 {
				return false
			}
			if node != 0 && m.RTLines != nil {
				if want, exact := m.RTLines(node); exact {
					if !strings.HasPrefix(g[start:], m.Chunk+":"+strconv.Itoa(want)+":") {
						return false
					}
				}
			}
		case strings.HasPrefix(r[i:], qMark):
			i += len(qMark)
			k := i
			for k < len(r) && r[k] >= '0' && r[k] <= '9' {
				k++
			}
			node, _ := strconv.Atoi(r[i:k])
			if !strings.HasPrefix(r[k:], qEnd) {
				return false
			}
			i = k + len(qEnd)
			// expect chunkName ":" digits ": "
			if !strings.HasPrefix(g[j:], m.Chunk+":") {
				return false
			}
			j += len(m.Chunk) + 1
			k = j
			for k < len(g) && g[k] >= '0' && g[k] <= '9' {
				k++
			}
			if k == j || !strings.HasPrefix(g[k:], ": ") {
				return false
			}
			gotLine, _ := strconv.Atoi(g[j:k])
			j = k + 2
			if m.Lines != nil {
				if want, exact := m.Lines(node); exact && want != gotLine {
					return false
				}
			}
		default:
			if j >= len(g) || r[i] != g[j] {
				return false
			}
			i++
			j++
		}
	}
	return j == len(g)
}
