package reflua

import (
	"fmt"
	"math"
	"strings"

	"verif/engine/lv"
	"verif/engine/prog"
	"verif/engine/refnum"
)

type cell struct{ v Value }

type binding struct {
	name  string
	c     *cell
	next  *binding
	konst bool
}

func (b *binding) lookup(name string) *binding {
	for ; b != nil; b = b.next {
		if b.name == name {
			return b
		}
	}
	return nil
}

type frame struct {
	varargs  []Value
	callNode int  // node of the call expression that created this frame
	lua      bool // a Lua function frame
	viaMeta  bool
	tail     bool
	parent   *frame
}

// protected call boundaries of one thread
type pframe struct {
	handler Value // xpcall message handler (nil for pcall / coroutine boundary)
	isX     bool
	// inHandler: the message handler of this xpcall is running (an error
	// raised now is an error inside the message handler)
	inHandler bool
}

type thread struct {
	co      *Coro // nil for main
	pstack  []pframe
	depth   int
	frame   *frame
	closing int // >0 while running __close handlers during unwinding
	// inHandler counts the __close handlers that are active on this thread
	inHandler int
	// dying: the coroutine is being closed (coroutine.close): its stack is
	// unwinding and errors of handlers must not suspend it again
	dying bool
}

type ctlKind int

const (
	cNone ctlKind = iota
	cBreak
	cReturn
	cGoto
)

type ctl struct {
	kind  ctlKind
	label string
	vals  []Value
}

// Interp evaluates one program.
type Interp struct {
	Globals  *Table
	StringMT *Table
	Canon    *Canon
	Trace    []string
	Steps    int
	MaxSteps int
	MaxDepth int
	Ext      Ext
	cur      *thread
	main     *thread
	coros    []*Coro
}

// Result of a reference run.
type Result struct {
	Trace   []string
	Status  string // ok | err
	Results []string
	Err     string
	Unspec  string // non-empty: the program is outside the determined fragment
	Diverge bool
}

func New() *Interp {
	in := &Interp{Globals: NewTable(), Canon: NewCanon(), MaxSteps: 20000, MaxDepth: 120}
	in.main = &thread{}
	in.cur = in.main
	in.installBuiltins()
	return in
}

// Options bound a reference run.  Zero fields keep the defaults (20000
// evaluation steps, 120 nested non-tail activations).
type Options struct {
	MaxSteps int
	MaxDepth int
	// Ext selects the extended error model used by check C11 (see Ext).
	Ext Ext
}

// Ext switches on parts of the error model that the default model leaves
// Unspec (check C11 decides them from the manual, see cmd/c11/NOTES.md).
type Ext struct {
	// CloseErrHandled: an error raised by a __close handler while another
	// error unwinds the stack under xpcall is "handled like an error in the
	// regular code where the variable was defined" (§3.3.8): the message
	// handler runs for it as for any other runtime error (default: Unspec).
	CloseErrHandled bool
	// HandlerErrAny: an error inside a message handler makes the xpcall
	// return false plus a value the manual does not determine (*Any); how
	// often the handler is re-entered is not determined either, so handlers
	// must not have observable effects after their first activation
	// (default: Unspec).
	HandlerErrAny bool
	// CoErrKeepsStack (check C10): "if a coroutine ends with an error, it does
	// not unwind its stack, so it does not close any variable" (§3.3.8): the
	// pending to-be-closed variables of a coroutine that died by an error are
	// closed (with that error) only by coroutine.close, or by the function
	// made by coroutine.wrap, which closes the coroutine in case of errors.
	// Default (false): the coroutine's stack unwinds at once, running the
	// handlers before resume returns false.
	CoErrKeepsStack bool
}

// Run evaluates chunk p with the given arguments (each nil, bool, int64,
// float64 or string) under the default bounds.
func Run(p *prog.Prog, args []Value) Result { return RunOpts(p, args, Options{}) }

// RunOpts is Run with explicit bounds.  A run that exceeds MaxSteps reports
// Diverge; one that exceeds MaxDepth, or does anything else the manual leaves
// open, reports Unspec (the reason is in Result.Unspec).  In both cases the
// program must not be compared.
func RunOpts(p *prog.Prog, args []Value, o Options) (res Result) {
	in := New()
	if o.MaxSteps > 0 {
		in.MaxSteps = o.MaxSteps
	}
	if o.MaxDepth > 0 {
		in.MaxDepth = o.MaxDepth
	}
	in.Ext = o.Ext
	defer in.killCoros()
	defer func() {
		res.Trace = in.Trace
		if r := recover(); r != nil {
			switch x := r.(type) {
			case Unspec:
				res.Unspec = x.Why
			case Diverge:
				res.Diverge = true
			case LuaError:
				res.Status = "err"
				res.Err = in.Canon.Value(x.V)
			default:
				panic(r)
			}
		}
	}()
	f := &Func{proto: &prog.Func{IsVararg: true, Body: p.Body}, name: "main chunk"}
	vals := in.call(f, args, 0, false)
	res.Status = "ok"
	for _, v := range vals {
		res.Results = append(res.Results, in.Canon.Value(v))
	}
	return
}

func (in *Interp) step() {
	in.Steps++
	if in.Steps > in.MaxSteps {
		panic(Diverge{})
	}
}

func (in *Interp) rterr(node int, what string) {
	in.raise(&RTErr{Node: node, What: what})
}

// raise raises a Lua error with value v: the innermost message handler (if
// the nearest protected boundary is an xpcall) runs at the point of the error.
func (in *Interp) raise(v Value) {
	t := in.cur
	if in.Ext.CoErrKeepsStack && t.co != nil && len(t.pstack) == 0 && !t.dying {
		// no protected call on this coroutine's stack: the coroutine ends with
		// the error and its stack stays as it is (§3.3.8, last paragraph)
		in.dieWithStack(t.co, v)
	}
	if n := len(t.pstack); n > 0 && t.pstack[n-1].isX && t.pstack[n-1].handler != nil {
		if t.dying {
			// the xpcall is itself being unwound by coroutine.close: the manual does
			// not say whether its message handler still applies
			unspec("error raised by a __close handler under xpcall while the coroutine is being closed")
		}
		if t.closing > 0 && !in.Ext.CloseErrHandled {
			unspec("error raised by a __close handler under xpcall")
		}
		h := t.pstack[n-1].handler
		// the handler itself runs unprotected by itself: an error inside it is
		// "error in error handling" territory, left open here
		saved := t.pstack[n-1]
		t.pstack[n-1] = pframe{isX: true, handler: nil, inHandler: true}
		func() {
			defer func() {
				if r := recover(); r != nil {
					if _, ok := r.(LuaError); ok {
						if in.Ext.HandlerErrAny {
							v = &Any{}
							return
						}
						unspec("error inside a message handler")
					}
					panic(r)
				}
			}()
			res := in.call(h, []Value{v}, 0, false)
			if len(res) > 0 {
				v = res[0]
			} else {
				v = nil
			}
		}()
		t.pstack[n-1] = saved
		t.pstack[n-1].handler = nil // handled once
		defer func() { t.pstack[n-1] = saved }()
	} else if n > 0 && t.pstack[n-1].inHandler && in.Ext.HandlerErrAny {
		// an error inside a message handler: the implementation may re-enter
		// the handler, give up with a message of its own, ...: the error value
		// that travels from here (and that __close handlers on the way see) is
		// not determined
		v = &Any{}
	}
	panic(LuaError{V: v})
}

// ---------------------------------------------------------------- calls

func (in *Interp) call(f Value, args []Value, node int, viaMeta bool) []Value {
	return in.callx(f, args, node, viaMeta, false)
}

func (in *Interp) callx(f Value, args []Value, node int, viaMeta, tail bool) []Value {
	in.step()
	fn, ok := f.(*Func)
	for hops := 0; !ok; hops++ {
		h := in.metaOf(f, "__call")
		if h == nil {
			in.rterr(node, "call a non-function")
		}
		if hops > 10 {
			unspec("long __call chain")
		}
		args = append([]Value{f}, args...)
		f = h
		fn, ok = f.(*Func)
	}
	t := in.cur
	if fn.builtin != nil {
		return fn.builtin(in, args, node)
	}
	if !tail {
		// nested tail calls are unlimited (§3.4.10); other recursion deeper than
		// MaxDepth is an implementation limit the manual does not fix
		t.depth++
		if t.depth > in.MaxDepth {
			unspec("deep recursion")
		}
		defer func() { t.depth-- }()
	}
	fr := &frame{callNode: node, lua: true, viaMeta: viaMeta, tail: tail, parent: t.frame}
	var env *binding = fn.env
	p := fn.proto
	for i, name := range p.Params {
		var v Value
		if i < len(args) {
			v = args[i]
		}
		env = &binding{name: name, c: &cell{v}, next: env}
	}
	if p.IsVararg && len(args) > len(p.Params) {
		fr.varargs = append([]Value{}, args[len(p.Params):]...)
	}
	saved := t.frame
	t.frame = fr
	defer func() { t.frame = saved }()
	c := in.block(p.Body, env, fr, nil)
	switch c.kind {
	case cReturn:
		return c.vals
	case cBreak, cGoto:
		unspec("break/goto escaping a function (invalid program)")
	}
	return nil
}

func (in *Interp) metaOf(v Value, event string) Value {
	var mt *Table
	switch x := v.(type) {
	case *Table:
		mt = x.meta
	case string:
		mt = in.StringMT
	case *RTErr:
		mt = in.StringMT
	case *Any:
		unspec("operation on an undetermined value")
	}
	if mt == nil {
		return nil
	}
	return mt.rawget(event)
}

// hasMeta reports whether assigning to o[k] may run a metamethod.
func (in *Interp) hasMeta(o Value) bool {
	t, ok := o.(*Table)
	return !ok || t.meta != nil
}

func first(vs []Value) Value {
	if len(vs) > 0 {
		return vs[0]
	}
	return nil
}

// ---------------------------------------------------------------- blocks

type tbcEntry struct {
	v    Value
	name string
}

// block executes statements in a new scope.  tail (optional) runs at normal
// completion inside the scope (repeat ... until cond).
func (in *Interp) block(body []prog.Stmt, env *binding, fr *frame, tail func(env *binding) ctl) (c ctl) {
	var tbcs []tbcEntry
	defer func() {
		// leaving the scope by an error or by coroutine.close: the variables that
		// are still pending are closed with that condition in flight (§3.3.8)
		if len(tbcs) == 0 {
			return
		}
		if r := recover(); r != nil {
			panic(in.unwind(&tbcs, r))
		}
	}()
	n := len(body)
	envAt := make([]*binding, n+1)
	tbcAt := make([]int, n+1)
	i := 0
	for i < n {
		envAt[i], tbcAt[i] = env, len(tbcs)
		in.step()
		c = in.stmt(body[i], &env, &tbcs, fr)
		if c.kind == cGoto {
			if j, ok := findLabel(body, c.label); ok {
				if j <= i {
					in.closeDown(&tbcs, tbcAt[j])
					env = envAt[j]
				}
				i = j
				c = ctl{}
				continue
			}
		}
		if c.kind != cNone {
			break
		}
		i++
	}
	if c.kind == cNone && tail != nil {
		c = tail(env)
	}
	in.closeDown(&tbcs, 0)
	return c
}

func findLabel(body []prog.Stmt, name string) (int, bool) {
	for i, s := range body {
		if l, ok := s.(*prog.Label); ok && l.Name == name {
			return i, true
		}
	}
	return 0, false
}

// closeDown closes tbcs[k:] in reverse order of declaration on a normal exit
// (end of block, break, goto, return: no error in flight).  Every entry is
// removed from the list before its handler is called (exactly once).  An error
// raised by a handler is "handled like an error in the regular code where the
// variable was defined": the remaining handlers run with it in flight, then it
// propagates.
func (in *Interp) closeDown(tbcs *[]tbcEntry, k int) {
	var cond interface{} // nil, or the LuaError in flight
	for len(*tbcs) > k {
		l := *tbcs
		e := l[len(l)-1]
		*tbcs = l[:len(l)-1]
		if cond == nil {
			if r := in.closeOne2(e, nil, false); r.raised {
				cond = LuaError{V: r.v}
			}
		} else {
			cond = in.closeUnder(e, cond)
		}
	}
	if cond != nil {
		panic(cond)
	}
}

// unwind closes every entry of *tbcs (last declared first) while condition r
// is in flight: r is the panic payload of a Lua error (LuaError) or of a
// coroutine being closed (coClose).  It returns the payload to go on with
// (a handler error replaces the error in flight).  Any other payload (Unspec,
// Diverge, ...) is returned unchanged and nothing is closed.
func (in *Interp) unwind(tbcs *[]tbcEntry, r interface{}) interface{} {
	switch r.(type) {
	case LuaError, coClose:
	default:
		return r
	}
	for len(*tbcs) > 0 {
		l := *tbcs
		e := l[len(l)-1]
		*tbcs = l[:len(l)-1]
		r = in.closeUnder(e, r)
	}
	return r
}

// closeUnder closes e while cond (LuaError or coClose) is in flight and
// returns the condition that is in flight afterwards.
func (in *Interp) closeUnder(e tbcEntry, cond interface{}) interface{} {
	switch x := cond.(type) {
	case LuaError:
		t := in.cur
		t.closing++
		r := in.closeOne2(e, x.V, true)
		t.closing--
		if r.raised {
			return LuaError{V: r.v}
		}
	case coClose:
		if r := in.closeOne2(e, x.err, x.hasErr); r.raised {
			return coClose{err: r.v, hasErr: true}
		}
	}
	return cond
}

type closeRes struct {
	raised bool
	v      Value
}

// closeOne2 calls the __close handler of e with (value, err or nil).
func (in *Interp) closeOne2(e tbcEntry, errv Value, hasErr bool) (res closeRes) {
	if !truth(e.v) {
		return
	}
	h := in.metaOf(e.v, "__close")
	if h == nil {
		unspec("__close metamethod removed before the variable went out of scope")
	}
	t := in.cur
	t.inHandler++
	defer func() {
		t.inHandler--
		if r := recover(); r != nil {
			if le, ok := r.(LuaError); ok {
				res = closeRes{true, le.V}
				return
			}
			panic(r)
		}
	}()
	var a Value
	if hasErr {
		a = errv
	}
	in.call(h, []Value{e.v, a}, 0, true)
	return
}

// ---------------------------------------------------------------- statements

func (in *Interp) stmt(s prog.Stmt, envp **binding, tbcs *[]tbcEntry, fr *frame) ctl {
	env := *envp
	switch x := s.(type) {
	case *prog.Local:
		vals := in.exprList(x.Exprs, env, fr)
		for i, name := range x.Names {
			var v Value
			if i < len(vals) {
				v = vals[i]
			}
			attr := ""
			if i < len(x.Attribs) {
				attr = x.Attribs[i]
			}
			if attr == "close" {
				if truth(v) && in.metaOf(v, "__close") == nil {
					in.rterr(x.ID, "variable got a non-closable value")
				}
			}
			env = &binding{name: name, c: &cell{v}, next: env, konst: attr != ""}
			if attr == "close" {
				*tbcs = append(*tbcs, tbcEntry{v: v, name: name})
			}
		}
		*envp = env
	case *prog.LocalFunc:
		b := &binding{name: x.Name, c: &cell{}, next: env}
		b.c.v = &Func{proto: x.F, env: b}
		*envp = b
	case *prog.FuncStat:
		fn := &Func{proto: x.F, env: env}
		if len(x.Path) == 1 && x.Method == "" {
			in.assignName(x.Path[0], fn, env)
		} else {
			obj := in.getName(x.Path[0], env)
			last := len(x.Path) - 1
			if x.Method != "" {
				last = len(x.Path)
			}
			for i := 1; i < last; i++ {
				obj = in.index(obj, x.Path[i], x.ID)
			}
			key := x.Method
			if key == "" {
				key = x.Path[len(x.Path)-1]
			}
			in.setIndex(obj, key, fn, x.ID)
		}
	case *prog.Assign:
		// evaluate everything first (§3.3.3), then assign
		type target struct {
			name string
			obj  Value
			key  Value
		}
		tg := make([]target, len(x.Targets))
		for i, te := range x.Targets {
			switch y := te.(type) {
			case *prog.Name:
				tg[i].name = y.N
			case *prog.Index:
				tg[i].obj = in.expr1(y.Obj, env, fr)
				tg[i].key = in.expr1(y.Key, env, fr)
			default:
				unspec("bad assignment target")
			}
		}
		vals := in.exprList(x.Exprs, env, fr)
		// "The order of the assignments is undefined" (§3.3.3): two targets
		// denoting the same variable or the same table slot leave the result open.
		metaTargets := 0
		for i := range tg {
			if tg[i].name == "" && in.hasMeta(tg[i].obj) {
				metaTargets++ // the store may run a metamethod: their order is observable
			}
			for j := 0; j < i; j++ {
				if tg[i].name != "" && tg[i].name == tg[j].name {
					unspec("multiple assignment names one variable twice")
				}
				if tg[i].name == "" && tg[j].name == "" && tg[i].obj == tg[j].obj && rawEqual(tg[i].key, tg[j].key) {
					unspec("multiple assignment stores to one table slot twice")
				}
			}
		}
		if metaTargets > 1 {
			unspec("multiple assignment with two stores that may run metamethods")
		}
		for i := range tg {
			var v Value
			if i < len(vals) {
				v = vals[i]
			}
			if tg[i].name != "" {
				in.assignName(tg[i].name, v, env)
			} else {
				in.setIndex(tg[i].obj, tg[i].key, v, prog.IDOf(x.Targets[i]))
			}
		}
	case *prog.CallStat:
		in.multi(x.Call, env, fr)
	case *prog.Do:
		return in.block(x.Body, env, fr, nil)
	case *prog.While:
		for truth(in.expr1(x.Cond, env, fr)) {
			in.step()
			c := in.block(x.Body, env, fr, nil)
			if c.kind == cBreak {
				break
			}
			if c.kind != cNone {
				return c
			}
		}
	case *prog.Repeat:
		for {
			in.step()
			done := false
			c := in.block(x.Body, env, fr, func(e *binding) ctl {
				done = truth(in.expr1(x.Cond, e, fr))
				return ctl{}
			})
			if c.kind == cBreak {
				break
			}
			if c.kind != cNone {
				return c
			}
			if done {
				break
			}
		}
	case *prog.If:
		for i, c := range x.Conds {
			if truth(in.expr1(c, env, fr)) {
				return in.block(x.Blocks[i], env, fr, nil)
			}
		}
		if x.HasElse {
			return in.block(x.Else, env, fr, nil)
		}
	case *prog.NumFor:
		return in.numFor(x, env, fr)
	case *prog.GenFor:
		return in.genFor(x, env, fr)
	case *prog.Return:
		if len(x.Exprs) == 1 && len(*tbcs) == 0 {
			// `return functioncall`: a tail call (§3.4.10).  It matters for error
			// level 2 positions and for the recursion depth: "there is no limit on
			// the number of nested tail calls".
			switch c := x.Exprs[0].(type) {
			case *prog.Call:
				f := in.expr1(c.Fn, env, fr)
				args := in.exprList(c.Args, env, fr)
				return ctl{kind: cReturn, vals: in.callx(f, args, c.ID, false, in.tailOK(fr))}
			case *prog.Method:
				obj := in.expr1(c.Obj, env, fr)
				f := in.index(obj, c.Name, c.ID)
				args := append([]Value{obj}, in.exprList(c.Args, env, fr)...)
				return ctl{kind: cReturn, vals: in.callx(f, args, c.ID, false, in.tailOK(fr))}
			}
		}
		return ctl{kind: cReturn, vals: in.exprList(x.Exprs, env, fr)}
	case *prog.Break:
		return ctl{kind: cBreak}
	case *prog.Goto:
		return ctl{kind: cGoto, label: x.Label}
	case *prog.Label:
	default:
		panic(fmt.Sprintf("reflua: unknown stmt %T", s))
	}
	return ctl{}
}

// tailOK: whether `return f()` here may be a real tail call.  Pending
// to-be-closed variables of enclosing blocks of the same function disable it,
// which this evaluator does not track; positions at level 2 are only compared
// when that cannot matter, so report "tail" conservatively.
func (in *Interp) tailOK(fr *frame) bool { return true }

func (in *Interp) getName(name string, env *binding) Value {
	if b := env.lookup(name); b != nil {
		return b.c.v
	}
	return in.index(in.Globals, name, 0)
}

func (in *Interp) assignName(name string, v Value, env *binding) {
	if b := env.lookup(name); b != nil {
		if b.konst {
			unspec("assignment to a const variable (compile error)")
		}
		b.c.v = v
		return
	}
	in.setIndex(in.Globals, name, v, 0)
}

func (in *Interp) numFor(x *prog.NumFor, env *binding, fr *frame) ctl {
	start := in.expr1(x.Start, env, fr)
	limit := in.expr1(x.Stop, env, fr)
	var step Value = int64(1)
	if x.Step != nil {
		step = in.expr1(x.Step, env, fr)
	}
	isNum := func(v Value) bool {
		switch v.(type) {
		case int64, float64:
			return true
		case string, *RTErr:
			unspec("string as for-loop control value")
		}
		return false
	}
	if !isNum(start) || !isNum(limit) || !isNum(step) {
		in.rterr(x.ID, "'for' control value must be a number")
	}
	run := func(v Value) (ctl, bool) {
		in.step()
		e := &binding{name: x.Var, c: &cell{v}, next: env}
		c := in.block(x.Body, e, fr, nil)
		if c.kind == cBreak {
			return ctl{}, true
		}
		if c.kind != cNone {
			return c, true
		}
		return ctl{}, false
	}
	si, ok1 := start.(int64)
	di, ok2 := step.(int64)
	if ok1 && ok2 {
		if di == 0 {
			in.rterr(x.ID, "'for' step is zero")
		}
		lim, _ := toLV(limit)
		if lim.K == lv.Float && lim.F != lim.F {
			return ctl{}
		}
		i := si
		for {
			c := refnum.Cmp(lv.I(i), lim)
			if di > 0 && c > 0 || di < 0 && c < 0 {
				return ctl{}
			}
			if r, stop := run(i); stop {
				return r
			}
			n := i + di
			if di > 0 && n < i || di < 0 && n > i {
				return ctl{} // would wrap: the loop ends
			}
			i = n
		}
	}
	tof := func(v Value) float64 {
		if f, ok := v.(float64); ok {
			return f
		}
		n := v.(int64)
		f := float64(n)
		if f >= 0x1p63 || int64(f) != n {
			unspec("inexact int->float conversion of a for-loop control value")
		}
		return f
	}
	s, l, d := tof(start), tof(limit), tof(step)
	if d == 0 {
		in.rterr(x.ID, "'for' step is zero")
	}
	if d != d {
		unspec("NaN for-loop step")
	}
	xv := s
	for k := 0; ; k++ {
		if d > 0 && !(xv <= l) || d < 0 && !(xv >= l) {
			return ctl{}
		}
		if alt := s + float64(k)*d; !(alt == xv || alt != alt && xv != xv) {
			unspec("float loop: repeated addition vs multiplication differ")
		}
		if r, stop := run(xv); stop {
			return r
		}
		xv += d
	}
}

func (in *Interp) genFor(x *prog.GenFor, env *binding, fr *frame) (res ctl) {
	vals := in.exprList(x.Exprs, env, fr)
	get := func(i int) Value {
		if i < len(vals) {
			return vals[i]
		}
		return nil
	}
	f, s, ctlv, closing := get(0), get(1), get(2), get(3)
	var tbcs []tbcEntry
	if closing != nil {
		if truth(closing) && in.metaOf(closing, "__close") == nil {
			in.rterr(x.ID, "for-loop closing value is not closable")
		}
		tbcs = append(tbcs, tbcEntry{v: closing})
	}
	defer func() {
		if len(tbcs) == 0 {
			return
		}
		if r := recover(); r != nil {
			panic(in.unwind(&tbcs, r))
		}
	}()
	for {
		in.step()
		rs := in.call(f, []Value{s, ctlv}, x.ID, false)
		if first(rs) == nil {
			break
		}
		ctlv = rs[0]
		e := env
		for i, name := range x.Names {
			var v Value
			if i < len(rs) {
				v = rs[i]
			}
			e = &binding{name: name, c: &cell{v}, next: e}
		}
		c := in.block(x.Body, e, fr, nil)
		if c.kind == cBreak {
			break
		}
		if c.kind != cNone {
			res = c
			break
		}
	}
	in.closeDown(&tbcs, 0)
	return res
}

// ---------------------------------------------------------------- expressions

// exprList evaluates an expression list with multi-value expansion of the
// last element.
func (in *Interp) exprList(es []prog.Expr, env *binding, fr *frame) []Value {
	var out []Value
	for i, e := range es {
		if i == len(es)-1 {
			out = append(out, in.multi(e, env, fr)...)
		} else {
			out = append(out, in.expr1(e, env, fr))
		}
	}
	return out
}

// multi evaluates e keeping all its values if it is a call or `...`.
func (in *Interp) multi(e prog.Expr, env *binding, fr *frame) []Value {
	switch x := e.(type) {
	case *prog.Call:
		f := in.expr1(x.Fn, env, fr)
		args := in.exprList(x.Args, env, fr)
		return in.call(f, args, x.ID, false)
	case *prog.Method:
		obj := in.expr1(x.Obj, env, fr)
		f := in.index(obj, x.Name, x.ID)
		args := append([]Value{obj}, in.exprList(x.Args, env, fr)...)
		return in.call(f, args, x.ID, false)
	case *prog.Vararg:
		return append([]Value{}, fr.varargs...)
	}
	return []Value{in.expr1(e, env, fr)}
}

func (in *Interp) expr1(e prog.Expr, env *binding, fr *frame) Value {
	switch x := e.(type) {
	case *prog.Nil:
		return nil
	case *prog.True:
		return true
	case *prog.False:
		return false
	case *prog.Int:
		return x.V
	case *prog.Float:
		return x.V
	case *prog.Str:
		return x.V
	case *prog.Vararg:
		return first(fr.varargs)
	case *prog.Name:
		if b := env.lookup(x.N); b != nil {
			return b.c.v
		}
		return in.index(in.Globals, x.N, x.ID)
	case *prog.Paren:
		return in.expr1(x.E, env, fr)
	case *prog.Index:
		o := in.expr1(x.Obj, env, fr)
		k := in.expr1(x.Key, env, fr)
		return in.index(o, k, x.ID)
	case *prog.Call, *prog.Method:
		return first(in.multi(e, env, fr))
	case *prog.Func:
		return &Func{proto: x, env: env}
	case *prog.TableC:
		t := NewTable()
		var pos int64 = 1
		// "The order of the assignments in a constructor is undefined" (§3.4.9):
		// a key given twice leaves the result open.
		seen := map[interface{}]bool{}
		once := func(k Value) {
			k = normKey(k)
			if seen[k] {
				unspec("table constructor assigns one key twice")
			}
			seen[k] = true
		}
		for i, f := range x.Fields {
			switch {
			case f.Nam != "":
				once(f.Nam)
				t.rawset(f.Nam, in.expr1(f.Val, env, fr))
			case f.Key != nil:
				k := in.expr1(f.Key, env, fr)
				v := in.expr1(f.Val, env, fr)
				if k == nil {
					in.rterr(x.ID, "table index is nil")
				}
				if fk, ok := k.(float64); ok && fk != fk {
					in.rterr(x.ID, "table index is NaN")
				}
				once(k)
				t.rawset(k, v)
			default:
				if i == len(x.Fields)-1 {
					for _, v := range in.multi(f.Val, env, fr) {
						once(pos)
						t.rawset(pos, v)
						pos++
					}
				} else {
					once(pos)
					t.rawset(pos, in.expr1(f.Val, env, fr))
					pos++
				}
			}
		}
		return t
	case *prog.Bin:
		switch x.Op {
		case "and":
			l := in.expr1(x.L, env, fr)
			if !truth(l) {
				return l
			}
			return in.expr1(x.R, env, fr)
		case "or":
			l := in.expr1(x.L, env, fr)
			if truth(l) {
				return l
			}
			return in.expr1(x.R, env, fr)
		}
		l := in.expr1(x.L, env, fr)
		r := in.expr1(x.R, env, fr)
		return in.binop(x.Op, l, r, x.ID)
	case *prog.Un:
		v := in.expr1(x.E, env, fr)
		return in.unop(x.Op, v, x.ID)
	}
	panic(fmt.Sprintf("reflua: unknown expr %T", e))
}

var arithEvent = map[string]string{"+": "__add", "-": "__sub", "*": "__mul", "/": "__div", "%": "__mod", "^": "__pow", "//": "__idiv",
	"&": "__band", "|": "__bor", "~": "__bxor", "<<": "__shl", ">>": "__shr", "..": "__concat"}

func isNumber(v Value) bool {
	switch v.(type) {
	case int64, float64:
		return true
	}
	return false
}

func (in *Interp) binMeta(event string, l, r Value, node int) (Value, bool) {
	h := in.metaOf(l, event)
	if h == nil {
		h = in.metaOf(r, event)
	}
	if h == nil {
		return nil, false
	}
	return first(in.call(h, []Value{l, r}, node, true)), true
}

func (in *Interp) binop(op string, l, r Value, node int) Value {
	switch op {
	case "==":
		return in.equals(l, r, node)
	case "~=":
		return !in.equals(l, r, node)
	case "<":
		return in.less(l, r, node, false)
	case "<=":
		return in.less(l, r, node, true)
	case ">":
		return in.less(r, l, node, false)
	case ">=":
		return in.less(r, l, node, true)
	case "..":
		ls, ok1 := concatStr(l)
		rs, ok2 := concatStr(r)
		if ok1 && ok2 {
			return ls + rs
		}
		if v, ok := in.binMeta("__concat", l, r, node); ok {
			return v
		}
		in.rterr(node, "concatenate")
	}
	ev := arithEvent[op]
	bitwise := false
	switch op {
	case "&", "|", "~", "<<", ">>":
		bitwise = true
	}
	if _, e := l.(*RTErr); e {
		unspec("operation on a VM error message")
	}
	if _, e := r.(*RTErr); e {
		unspec("operation on a VM error message")
	}
	_, ls := l.(string)
	_, rs := r.(string)
	prim := func(a, b lv.V) Value {
		res := refnum.Arith(op, a, b)
		if res.Unspec || len(res.Alt) > 0 {
			unspec("arithmetic result left open (%s)", op)
		}
		if res.Err {
			in.rterr(node, "arithmetic "+op)
		}
		return fromLV(res.V)
	}
	if isNumber(l) && isNumber(r) {
		a, _ := toLV(l)
		b, _ := toLV(r)
		return prim(a, b)
	}
	if (isNumber(l) || ls) && (isNumber(r) || rs) {
		if bitwise {
			unspec("bitwise operator on a string")
		}
		// the string metamethods coerce numeric strings (§3.4.3)
		a, _ := toLV(l)
		b, _ := toLV(r)
		na, ok1 := refnum.ToNumber(a)
		nb, ok2 := refnum.ToNumber(b)
		if !ok1 || !ok2 {
			in.rterr(node, "arithmetic on a non-numeric string")
		}
		return prim(na, nb)
	}
	if bitwise && (ls || rs) {
		unspec("bitwise operator on a string")
	}
	if !ls {
		if h := in.metaOf(l, ev); h != nil {
			return first(in.call(h, []Value{l, r}, node, true))
		}
	}
	if !rs {
		if h := in.metaOf(r, ev); h != nil {
			return first(in.call(h, []Value{l, r}, node, true))
		}
	}
	in.rterr(node, "arithmetic "+op)
	return nil
}

func concatStr(v Value) (string, bool) {
	switch x := v.(type) {
	case string:
		if tainted(x) {
			unspec("concatenation of a message with position")
		}
		return x, true
	case int64:
		return fmt.Sprint(x), true
	case float64:
		unspec("float to string conversion format")
	case *RTErr:
		unspec("concatenation of a VM error message")
	}
	return "", false
}

func (in *Interp) unop(op string, v Value, node int) Value {
	switch op {
	case "not":
		return !truth(v)
	case "#":
		switch x := v.(type) {
		case string:
			if tainted(x) {
				unspec("# of a message with position")
			}
			return int64(len(x))
		case *RTErr:
			unspec("# of a VM error message")
		}
		if h := in.metaOf(v, "__len"); h != nil {
			return first(in.call(h, []Value{v}, node, true))
		}
		if t, ok := v.(*Table); ok {
			return t.length()
		}
		in.rterr(node, "length of a non-table")
	case "-", "~":
		ev := "__unm"
		if op == "~" {
			ev = "__bnot"
		}
		if _, isS := v.(string); isNumber(v) || isS && op == "-" {
			a, _ := toLV(v)
			res := refnum.Unary(op, a)
			if res.Unspec {
				unspec("unary result left open")
			}
			if !res.Err {
				return fromLV(res.V)
			}
			if isS {
				in.rterr(node, "arithmetic on a string")
			}
		} else if isS {
			unspec("bitwise operator on a string")
		}
		if h := in.metaOf(v, ev); h != nil {
			return first(in.call(h, []Value{v, v}, node, true))
		}
		in.rterr(node, "unary "+op)
	}
	return nil
}

func (in *Interp) equals(l, r Value, node int) bool {
	if rawEqual(l, r) {
		return true
	}
	lt, ok1 := l.(*Table)
	rt, ok2 := r.(*Table)
	if !ok1 || !ok2 {
		return false
	}
	h := in.metaOf(lt, "__eq")
	if h == nil {
		h = in.metaOf(rt, "__eq")
	}
	if h == nil {
		return false
	}
	return truth(first(in.call(h, []Value{l, r}, node, true)))
}

func (in *Interp) less(l, r Value, node int, orEq bool) bool {
	if isNumber(l) && isNumber(r) {
		a, _ := toLV(l)
		b, _ := toLV(r)
		c := refnum.Cmp(a, b)
		return c == -1 || orEq && c == 0
	}
	ls, ok1 := l.(string)
	rs, ok2 := r.(string)
	if ok1 && ok2 {
		if tainted(ls) || tainted(rs) {
			unspec("comparison of a message with position")
		}
		for i := 0; i < len(ls)+len(rs); i++ {
			if i < len(ls) && ls[i] >= 0x80 || i < len(rs) && rs[i] >= 0x80 {
				unspec("string collation of non-ASCII bytes")
			}
		}
		c := strings.Compare(ls, rs)
		return c < 0 || orEq && c == 0
	}
	if _, e := l.(*RTErr); e {
		unspec("comparison of a VM error message")
	}
	if _, e := r.(*RTErr); e {
		unspec("comparison of a VM error message")
	}
	ev := "__lt"
	if orEq {
		ev = "__le"
	}
	if v, ok := in.binMeta(ev, l, r, node); ok {
		return truth(v)
	}
	if orEq && (in.metaOf(l, "__lt") != nil || in.metaOf(r, "__lt") != nil) {
		unspec("__le falling back to __lt (compatibility option)")
	}
	in.rterr(node, "compare")
	return false
}

// index implements t[k] with __index (§2.4).
func (in *Interp) index(o Value, k Value, node int) Value {
	for hops := 0; hops < 20; hops++ {
		if t, ok := o.(*Table); ok {
			v := t.rawget(k)
			if v != nil {
				return v
			}
			if ks, ok := k.(string); ok && t.missing[ks] {
				unspec("library name %q is not modelled by the reference", ks)
			}
			h := in.metaOf(t, "__index")
			if h == nil {
				return nil
			}
			if f, ok := h.(*Func); ok {
				return first(in.call(f, []Value{o, k}, node, true))
			}
			o = h
			continue
		}
		h := in.metaOf(o, "__index")
		if h == nil {
			in.rterr(node, "index a non-table")
		}
		if f, ok := h.(*Func); ok {
			return first(in.call(f, []Value{o, k}, node, true))
		}
		o = h
	}
	unspec("long __index chain")
	return nil
}

// setIndex implements t[k] = v with __newindex (§2.4).
func (in *Interp) setIndex(o Value, k Value, v Value, node int) {
	for hops := 0; hops < 20; hops++ {
		if t, ok := o.(*Table); ok {
			if t.rawget(k) != nil {
				t.rawset(k, v)
				return
			}
			h := in.metaOf(t, "__newindex")
			if h == nil {
				if k == nil {
					in.rterr(node, "table index is nil")
				}
				if f, ok := k.(float64); ok && f != f {
					in.rterr(node, "table index is NaN")
				}
				t.rawset(k, v)
				return
			}
			if f, ok := h.(*Func); ok {
				in.call(f, []Value{o, k, v}, node, true)
				return
			}
			o = h
			continue
		}
		h := in.metaOf(o, "__newindex")
		if h == nil {
			in.rterr(node, "index a non-table")
		}
		if f, ok := h.(*Func); ok {
			in.call(f, []Value{o, k, v}, node, true)
			return
		}
		o = h
	}
	unspec("long __newindex chain")
}

var _ = math.Inf
