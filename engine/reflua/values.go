// Package reflua is a definitional tree-walking evaluator for the checker's
// own program AST (package prog), written from the Lua 5.4 reference manual
// (§2.4, §3, §6.1, §6.2).  It imports nothing from golua.  Wherever the
// manual leaves behaviour open it raises Unspec so that the program is
// excluded rather than guessed.
package reflua

import (
	"fmt"
	"math"
	"strconv"
	"strings"

	"verif/engine/lv"
	"verif/engine/prog"
	"verif/engine/refnum"
)

// Value is nil, bool, int64, float64, string, *Table, *Func, *Coro or *RTErr.
type Value = interface{}

type Table struct {
	hash map[interface{}]Value
	meta *Table
	// missing lists names that exist in a real Lua 5.4 library table but are
	// not modelled here: reading one of them makes the program Unspec instead
	// of (wrongly) yielding nil.
	missing map[string]bool
}

func NewTable() *Table { return &Table{hash: map[interface{}]Value{}} }

type Func struct {
	proto   *prog.Func
	env     *binding
	builtin func(in *Interp, args []Value, node int) []Value
	name    string
}

// RTErr is an error raised by the "VM" (arithmetic on nil, call of a
// non-function, ...) or by a library function: the manual fixes no message
// text, so it is an opaque string-typed value.  Node (if non-zero) is the
// responsible code, whose line prefixes the message.
type RTErr struct {
	Node int
	What string
}

// Any is a value the manual does not determine (the result of an xpcall whose
// message handler failed, Ext.HandlerErrAny).  It may only be passed around
// and emitted; every operation that would depend on it is Unspec.  It matches
// any single value of the implementation (MatchCanonX).
type Any struct{}

// PosMark prefixes string error messages that carry "chunk:line:".
const posMark = "\x01@"

func posPrefix(node int) string { return posMark + strconv.Itoa(node) + "\x01" }

func tainted(s string) bool { return strings.Contains(s, posMark) }

// LuaError is the panic payload of a Lua error.
type LuaError struct{ V Value }

// Unspec is the panic payload for behaviour the manual does not determine.
type Unspec struct{ Why string }

// Diverge is raised when the step budget is exhausted.
type Diverge struct{}

func unspec(f string, a ...interface{}) { panic(Unspec{fmt.Sprintf(f, a...)}) }

func typeName(v Value) string {
	switch v.(type) {
	case nil:
		return "nil"
	case bool:
		return "boolean"
	case int64, float64:
		return "number"
	case string, *RTErr:
		return "string"
	case *Table:
		return "table"
	case *Func:
		return "function"
	case *Coro:
		return "thread"
	case *Any:
		unspec("type of an undetermined value")
	}
	return "?"
}

func truth(v Value) bool {
	if v == nil {
		return false
	}
	if b, ok := v.(bool); ok {
		return b
	}
	if _, ok := v.(*Any); ok {
		unspec("truth of an undetermined value")
	}
	return true
}

func toLV(v Value) (lv.V, bool) {
	switch x := v.(type) {
	case int64:
		return lv.I(x), true
	case float64:
		return lv.F(x), true
	case string:
		if tainted(x) {
			unspec("operation on a message with position")
		}
		return lv.S(x), true
	case *RTErr:
		unspec("operation on a VM error message")
	}
	return lv.V{}, false
}

func fromLV(v lv.V) Value {
	switch v.K {
	case lv.Int:
		return v.I
	case lv.Float:
		return v.F
	case lv.Str:
		return v.S
	case lv.Bool:
		return v.B
	}
	return nil
}

// normKey normalises a table key: floats with integer value become integers.
func normKey(k Value) Value {
	if f, ok := k.(float64); ok {
		if n, ok := refnum.FloatToInt(f); ok {
			return n
		}
	}
	return k
}

func (t *Table) rawget(k Value) Value {
	k = normKey(k)
	if f, ok := k.(float64); ok && f != f {
		return nil
	}
	if k == nil {
		return nil
	}
	return t.hash[k]
}

func (t *Table) rawset(k, v Value) {
	k = normKey(k)
	if v == nil {
		delete(t.hash, k)
		return
	}
	t.hash[k] = v
}

// length returns the border of t if it is unique (a proper sequence with no
// other positive integer keys), else raises Unspec.
func (t *Table) length() int64 {
	var n int64
	for t.hash[n+1] != nil {
		n++
	}
	for k := range t.hash {
		if i, ok := k.(int64); ok && i > n {
			unspec("# on a table with holes")
		}
	}
	return n
}

func rawEqual(a, b Value) bool {
	la, oka := a.(int64)
	fa, okfa := a.(float64)
	lb, okb := b.(int64)
	fb, okfb := b.(float64)
	if (oka || okfa) && (okb || okfb) {
		var x, y lv.V
		if oka {
			x = lv.I(la)
		} else {
			x = lv.F(fa)
		}
		if okb {
			y = lv.I(lb)
		} else {
			y = lv.F(fb)
		}
		return refnum.Cmp(x, y) == 0
	}
	if _, ok := a.(*Any); ok {
		unspec("comparison of an undetermined value")
	}
	if _, ok := b.(*Any); ok {
		unspec("comparison of an undetermined value")
	}
	if _, ok := a.(*Func); ok {
		if _, ok := b.(*Func); ok && a != b {
			// closures of one prototype without distinguishable upvalues
			// may or may not be equal (§3.4.4)
			if a.(*Func).proto != nil && a.(*Func).proto == b.(*Func).proto {
				unspec("equality of closures of the same prototype")
			}
		}
	}
	if sa, ok := a.(string); ok {
		if sb, ok := b.(string); ok {
			if tainted(sa) || tainted(sb) {
				unspec("comparison of a message with position")
			}
			return sa == sb
		}
	}
	if _, ok := a.(*RTErr); ok {
		if a == b {
			return true
		}
		if typeName(b) == "string" {
			unspec("comparison of a VM error message")
		}
		return false
	}
	if _, ok := b.(*RTErr); ok {
		if typeName(a) == "string" {
			unspec("comparison of a VM error message")
		}
		return false
	}
	return a == b
}

// Canon numbers reference values by first occurrence, like host.Canon.
type Canon struct {
	ids map[interface{}]int
	cnt map[byte]int
}

func NewCanon() *Canon { return &Canon{ids: map[interface{}]int{}, cnt: map[byte]int{}} }

func (c *Canon) id(kind byte, p interface{}) int {
	if k, ok := c.ids[p]; ok {
		return k
	}
	c.cnt[kind]++
	c.ids[p] = c.cnt[kind]
	return c.cnt[kind]
}

func (c *Canon) Value(v Value) string {
	switch x := v.(type) {
	case nil:
		return "nil"
	case bool:
		if x {
			return "true"
		}
		return "false"
	case int64:
		return "i:" + strconv.FormatInt(x, 10)
	case float64:
		return lv.FloatCanon(x)
	case string:
		return "s:" + strconv.Quote(x)
	case *RTErr:
		return "RTERR@" + strconv.Itoa(x.Node)
	case *Table:
		return "T#" + strconv.Itoa(c.id('T', x))
	case *Func:
		return "F" // identity of functions is not compared (§3.4.4)
	case *Coro:
		return "C#" + strconv.Itoa(c.id('C', x))
	case *Any:
		return "ANY"
	}
	return "?"
}

func (c *Canon) Values(vs []Value) string {
	parts := make([]string, len(vs))
	for i, v := range vs {
		parts[i] = c.Value(v)
	}
	return strings.Join(parts, ",")
}

var _ = math.Inf
