package reflua

import "runtime"

// Coroutines are goroutines with a strict hand-off: exactly one runs at a time.

type coKind int

const (
	mResume coKind = iota
	mClose
	mKill
	mYield
	mReturn
	mError
	mClosed
	mPanic
)

type coMsg struct {
	kind   coKind
	vals   []Value
	err    Value
	hasErr bool
	panicv interface{}
}

type Coro struct {
	fn       Value
	status   string // suspended | running | normal | dead
	started  bool
	toCo     chan coMsg
	fromCo   chan coMsg
	th       *thread
	err      Value
	hasErr   bool
	errTaken bool
	// parked: the coroutine died by an error and keeps its stack
	// (Ext.CoErrKeepsStack): its goroutine waits for coroutine.close or the
	// end of the run
	parked bool
}

// coClose is the panic payload that unwinds a coroutine being closed.
type coClose struct {
	err    Value
	hasErr bool
}

func (in *Interp) newCoro(f Value) *Coro {
	co := &Coro{fn: f, status: "suspended", toCo: make(chan coMsg), fromCo: make(chan coMsg)}
	co.th = &thread{co: co}
	in.coros = append(in.coros, co)
	return co
}

func (in *Interp) killCoros() {
	for _, co := range in.coros {
		if co.started && (co.status != "dead" || co.parked) {
			co.status, co.parked = "dead", false
			co.toCo <- coMsg{kind: mKill}
		}
	}
}

func (in *Interp) startCoro(co *Coro) {
	co.started = true
	go func() {
		msg := <-co.toCo
		if msg.kind == mKill {
			return
		}
		defer func() {
			r := recover()
			if r == nil {
				return
			}
			switch x := r.(type) {
			case LuaError:
				co.fromCo <- coMsg{kind: mError, err: x.V, hasErr: true}
			case coClose:
				co.fromCo <- coMsg{kind: mClosed, err: x.err, hasErr: x.hasErr}
			default:
				co.fromCo <- coMsg{kind: mPanic, panicv: r}
			}
		}()
		if msg.kind == mClose {
			panic(coClose{})
		}
		vals := in.call(co.fn, msg.vals, 0, false)
		co.fromCo <- coMsg{kind: mReturn, vals: vals}
	}()
}

// transfer hands control to co with msg and waits for it to hand it back.
func (in *Interp) transfer(co *Coro, msg coMsg) coMsg {
	prev := in.cur
	if prev.co != nil {
		prev.co.status = "normal"
	}
	co.status = "running"
	in.cur = co.th
	if !co.started {
		in.startCoro(co)
	}
	co.toCo <- msg
	back := <-co.fromCo
	in.cur = prev
	if prev.co != nil {
		prev.co.status = "running"
	}
	switch back.kind {
	case mYield:
		co.status = "suspended"
	case mReturn, mClosed:
		co.status = "dead"
	case mError:
		co.status = "dead"
		co.err, co.hasErr = back.err, true
	case mPanic:
		co.status = "dead"
		panic(back.panicv)
	}
	return back
}

// resume returns (ok, values or error).
func (in *Interp) resume(co *Coro, args []Value) (bool, []Value) {
	if co.status != "suspended" {
		return false, []Value{&RTErr{What: "cannot resume non-suspended coroutine"}}
	}
	back := in.transfer(co, coMsg{kind: mResume, vals: args})
	if back.kind == mError {
		return false, []Value{back.err}
	}
	return true, back.vals
}

func (in *Interp) yield(vals []Value) []Value {
	t := in.cur
	if t.co == nil {
		in.liberr("attempt to yield from outside a coroutine")
	}
	co := t.co
	co.fromCo <- coMsg{kind: mYield, vals: vals}
	msg := <-co.toCo
	switch msg.kind {
	case mKill:
		runtime.Goexit()
	case mClose:
		if t.inHandler > 0 {
			unspec("coroutine closed while it is suspended inside a __close handler")
		}
		t.dying = true
		panic(coClose{})
	}
	return msg.vals
}

// dieWithStack ends coroutine co with error v without unwinding its stack
// (Ext.CoErrKeepsStack).  The goroutine stays parked at the raise point until
// the coroutine is closed, which unwinds the stack with v in flight.
func (in *Interp) dieWithStack(co *Coro, v Value) {
	co.parked = true
	co.fromCo <- coMsg{kind: mError, err: v, hasErr: true}
	msg := <-co.toCo
	switch msg.kind {
	case mKill:
		runtime.Goexit()
	case mClose:
		co.th.dying = true
		panic(coClose{err: v, hasErr: true})
	}
	panic("reflua: a dead coroutine was resumed")
}

// closeParked closes a coroutine that died by an error and kept its stack;
// it returns the error that remains after the handlers ran.
func (in *Interp) closeParked(co *Coro) Value {
	co.parked = false
	back := in.transfer(co, coMsg{kind: mClose})
	if back.kind != mClosed {
		unspec("coroutine yielded or returned while being closed")
	}
	return back.err
}

func (in *Interp) installCoroutine() {
	C := NewTable()
	in.Globals.rawset("coroutine", C)
	needCo := func(in *Interp, v Value, what string) *Coro {
		co, ok := v.(*Coro)
		if !ok {
			in.liberr(what + ": coroutine expected")
		}
		return co
	}
	in.reg(C, "create", func(in *Interp, args []Value, node int) []Value {
		if _, ok := arg(args, 0).(*Func); !ok {
			in.liberr("create: function expected")
		}
		return []Value{in.newCoro(args[0])}
	})
	in.reg(C, "resume", func(in *Interp, args []Value, node int) []Value {
		co := needCo(in, arg(args, 0), "resume")
		ok, vals := in.resume(co, args[1:])
		return append([]Value{ok}, vals...)
	})
	in.reg(C, "yield", func(in *Interp, args []Value, node int) []Value {
		return in.yield(args)
	})
	in.reg(C, "status", func(in *Interp, args []Value, node int) []Value {
		return []Value{needCo(in, arg(args, 0), "status").status}
	})
	in.reg(C, "isyieldable", func(in *Interp, args []Value, node int) []Value {
		if len(args) > 0 {
			unspec("isyieldable with an argument")
		}
		return []Value{in.cur.co != nil}
	})
	in.reg(C, "running", func(in *Interp, args []Value, node int) []Value {
		if in.cur.co == nil {
			unspec("coroutine.running in the main thread (identity of the main coroutine)")
		}
		return []Value{in.cur.co, false}
	})
	in.reg(C, "wrap", func(in *Interp, args []Value, node int) []Value {
		if _, ok := arg(args, 0).(*Func); !ok {
			in.liberr("wrap: function expected")
		}
		co := in.newCoro(args[0])
		return []Value{&Func{name: "wrap", builtin: func(in *Interp, a []Value, n int) []Value {
			ok, vals := in.resume(co, a)
			if ok {
				return vals
			}
			ev := first(vals)
			if co.parked {
				// "its corresponding function will close the coroutine in case of errors"
				ev = in.closeParked(co)
			}
			switch ev.(type) {
			case string, *RTErr:
				// string errors get position information prepended by wrap
				in.raise(&RTErr{What: "error through coroutine.wrap"})
			}
			in.raise(ev)
			return nil
		}}}
	})
	in.reg(C, "close", func(in *Interp, args []Value, node int) []Value {
		co := needCo(in, arg(args, 0), "close")
		switch co.status {
		case "dead":
			if co.parked {
				co.errTaken = true
				return []Value{false, in.closeParked(co)}
			}
			if co.hasErr {
				if co.errTaken {
					unspec("closing an errored coroutine twice")
				}
				co.errTaken = true
				return []Value{false, co.err}
			}
			return []Value{true}
		case "suspended":
			if !co.started {
				co.status = "dead"
				return []Value{true}
			}
			back := in.transfer(co, coMsg{kind: mClose})
			switch back.kind {
			case mClosed:
				if back.hasErr {
					return []Value{false, back.err}
				}
				return []Value{true}
			case mError:
				co.errTaken = true
				return []Value{false, back.err}
			}
			unspec("coroutine yielded or returned while being closed")
		}
		in.liberr("cannot close a " + co.status + " coroutine")
		return nil
	})
}
