// Package refstr is an independent reference for the parts of string.format
// whose output is fully determined by ISO C's fprintf rules (C11 §7.21.6.1),
// which the Lua 5.4 manual §6.4 (string.format) adopts: the integer
// conversions d i u o x X, the character conversion c and the string
// conversion s, with the flags "-+ #0", a field width and a precision.
//
// The padding / precision / sign / prefix logic is written here from the C
// standard's text; strconv is used only to obtain digit strings.  Nothing
// from golua (and no fmt verb logic) is involved.
//
// Lua passes integers as 64-bit ("long long") values: d and i print the
// signed value, u o x X print the value modulo 2^64.
package refstr

import (
	"math"
	"math/big"
	"strconv"
	"strings"
)

// Spec is one conversion specification.
type Spec struct {
	Minus, Plus, Space, Sharp, Zero bool
	Width                           int // -1 = none
	Prec                            int // -1 = none
	Conv                            byte
}

// String renders the specification in canonical flag order.
func (s Spec) String() string {
	var b strings.Builder
	b.WriteByte('%')
	if s.Minus {
		b.WriteByte('-')
	}
	if s.Plus {
		b.WriteByte('+')
	}
	if s.Space {
		b.WriteByte(' ')
	}
	if s.Sharp {
		b.WriteByte('#')
	}
	if s.Zero {
		b.WriteByte('0')
	}
	if s.Width >= 0 {
		b.WriteString(strconv.Itoa(s.Width))
	}
	if s.Prec >= 0 {
		b.WriteByte('.')
		b.WriteString(strconv.Itoa(s.Prec))
	}
	b.WriteByte(s.Conv)
	return b.String()
}

// Defined reports whether C defines the behaviour of this combination of
// flags, precision and conversion.  ("#": "For other conversions, the
// behavior is undefined"; "0": "For other conversions, the behavior is
// undefined"; a precision with c "the behavior is undefined".)
func (s Spec) Defined() bool {
	switch s.Conv {
	case 'd', 'i', 'u':
		return !s.Sharp
	case 'o', 'x', 'X':
		return true
	case 'c':
		return !s.Sharp && !s.Zero && s.Prec < 0
	case 's':
		return !s.Sharp && !s.Zero
	}
	return false
}

// IgnoredSignFlag reports that the specification carries a '+' or ' ' flag on
// a conversion that is not a signed conversion.  C gives these flags a
// meaning only for signed conversions, so they have no effect; PUC-Lua 5.4.4+
// rejects them.  Callers accept both.
func (s Spec) IgnoredSignFlag() bool {
	switch s.Conv {
	case 'd', 'i':
		return false
	}
	return s.Plus || s.Space
}

func pad(body string, width int, left bool) string {
	if width < 0 || len(body) >= width {
		return body
	}
	sp := strings.Repeat(" ", width-len(body))
	if left {
		return body + sp
	}
	return sp + body
}

// Int formats v under an integer conversion.
func Int(s Spec, v int64) string {
	var sign, prefix, digits string
	switch s.Conv {
	case 'd', 'i':
		u := uint64(v)
		if v < 0 {
			sign = "-"
			u = -u // magnitude, also right for the minimum integer
		} else if s.Plus {
			sign = "+"
		} else if s.Space {
			sign = " "
		}
		digits = strconv.FormatUint(u, 10)
	case 'u':
		digits = strconv.FormatUint(uint64(v), 10)
	case 'o':
		digits = strconv.FormatUint(uint64(v), 8)
	case 'x':
		digits = strconv.FormatUint(uint64(v), 16)
	case 'X':
		digits = strings.ToUpper(strconv.FormatUint(uint64(v), 16))
	}
	// "The result of converting a zero value with a precision of zero is no
	// characters."
	if v == 0 && s.Prec == 0 {
		digits = ""
	}
	// precision: "the minimum number of digits to appear"
	if s.Prec >= 0 && len(digits) < s.Prec {
		digits = strings.Repeat("0", s.Prec-len(digits)) + digits
	}
	if s.Sharp {
		switch s.Conv {
		case 'o':
			// "it increases the precision, if and only if necessary, to force
			// the first digit of the result to be a zero (if the value and
			// precision are both 0, a single 0 is printed)"
			if !strings.HasPrefix(digits, "0") {
				digits = "0" + digits
			}
		case 'x':
			if v != 0 { // "a nonzero result has 0x prefixed to it"
				prefix = "0x"
			}
		case 'X':
			if v != 0 {
				prefix = "0X"
			}
		}
	}
	body := sign + prefix + digits
	// "0": "leading zeros (following any indication of sign or base) are used
	// to pad to the field width rather than performing space padding ... If
	// the 0 and - flags both appear, the 0 flag is ignored. For d, i, o, u, x,
	// and X conversions, if a precision is specified, the 0 flag is ignored."
	if s.Zero && !s.Minus && s.Prec < 0 && s.Width > len(body) {
		return sign + prefix + strings.Repeat("0", s.Width-len(body)) + digits
	}
	return pad(body, s.Width, s.Minus)
}

// Char formats the c conversion: "the int argument is converted to an
// unsigned char, and the resulting character is written".
func Char(s Spec, v int64) string {
	return pad(string([]byte{byte(v)}), s.Width, s.Minus)
}

// Str formats the s conversion: "Characters from the array are written up to
// (but not including) the terminating null character. If the precision is
// specified, no more than that many bytes are written."  str must not
// contain a zero byte when modifiers are present (the Lua manual excludes it).
func Str(s Spec, str string) string {
	if s.Prec >= 0 && len(str) > s.Prec {
		str = str[:s.Prec]
	}
	return pad(str, s.Width, s.Minus)
}

// ---- hexadecimal float syntax (for checking %a / %A output)

// ParseHexFloat parses [-]0xh[.hhh]p[+-]d exactly for values that fit a
// float64 without rounding; ok=false otherwise.  expDigits returns the
// exponent digit string for format checks.
func ParseHexFloat(t string, upper bool) (val float64, neg bool, expDigits string, ok bool) {
	x, p := "0x", byte('p')
	if upper {
		x, p = "0X", 'P'
	}
	if strings.HasPrefix(t, "-") {
		neg = true
		t = t[1:]
	}
	if !strings.HasPrefix(t, x) {
		return
	}
	t = t[2:]
	k := strings.IndexByte(t, p)
	if k < 0 {
		return
	}
	mant, exp := t[:k], t[k+1:]
	if len(exp) < 2 || (exp[0] != '+' && exp[0] != '-') {
		return // C always writes the exponent sign
	}
	expDigits = exp[1:]
	e, err := strconv.Atoi(exp)
	if err != nil {
		return
	}
	var m uint64
	seenDot := false
	nd := 0
	for i := 0; i < len(mant); i++ {
		c := mant[i]
		if c == '.' {
			if seenDot {
				return
			}
			seenDot = true
			continue
		}
		var d uint64
		switch {
		case c >= '0' && c <= '9':
			d = uint64(c - '0')
		case !upper && c >= 'a' && c <= 'f':
			d = uint64(c-'a') + 10
		case upper && c >= 'A' && c <= 'F':
			d = uint64(c-'A') + 10
		default:
			return
		}
		if m >= 1<<52 {
			return // would not be exact
		}
		m = m*16 + d
		nd++
		if seenDot {
			e -= 4
		}
	}
	if nd == 0 || mant[0] == '.' || m > 1<<53 {
		return
	}
	val = float64(m)
	for ; e > 0; e-- {
		val *= 2
	}
	for ; e < 0; e++ {
		val /= 2
	}
	ok = true
	return
}

// Float formats a finite x under e E f F g G following C11 §7.21.6.1.  The
// decimal digit strings come from strconv (trusted for correctly rounded
// binary->decimal conversion only); which digits are requested, the style
// choice of %g, trailing-zero removal, the exponent layout, sign, '#', '0',
// '-' and the field width are written here from the standard's text.
//
// exact reports that the digits printed are the exact value of x (no rounding
// took place).  C only recommends, not requires, correct rounding, so callers
// compare outputs only when exact is true.
func Float(s Spec, x float64) (out string, exact bool) {
	if math.IsNaN(x) || math.IsInf(x, 0) {
		return "", false
	}
	neg := math.Signbit(x)
	a := math.Abs(x)
	prec := s.Prec
	if prec < 0 {
		prec = 6 // "If the precision is missing, it is taken as 6"
	}
	upper := s.Conv == 'E' || s.Conv == 'F' || s.Conv == 'G'
	var body string
	switch s.Conv {
	case 'e', 'E':
		body, exact = styleE(a, prec, s.Sharp)
	case 'f', 'F':
		body, exact = styleF(a, prec, s.Sharp)
	case 'g', 'G':
		// "Let P equal the precision if nonzero, 6 if the precision is
		// omitted, or 1 if it is zero.  Then, if a conversion with style E
		// would have an exponent of X: if P > X >= -4, the conversion is with
		// style f and precision P - (X + 1); otherwise with style e and
		// precision P - 1.  Finally, unless the # flag is used, any trailing
		// zeros are removed from the fractional portion of the result and the
		// decimal-point character is removed if there is no fractional
		// portion remaining."
		P := prec
		if P == 0 {
			P = 1
		}
		X := expOfStyleE(a, P-1)
		if P > X && X >= -4 {
			body, exact = styleF(a, P-(X+1), s.Sharp)
			if !s.Sharp {
				body = trimFraction(body)
			}
		} else {
			body, exact = styleE(a, P-1, s.Sharp)
			if !s.Sharp {
				k := strings.IndexByte(body, 'e')
				body = trimFraction(body[:k]) + body[k:]
			}
		}
	default:
		return "", false
	}
	if upper {
		body = strings.ToUpper(body)
	}
	sign := ""
	switch {
	case neg:
		sign = "-"
	case s.Plus:
		sign = "+"
	case s.Space:
		sign = " "
	}
	if s.Zero && !s.Minus && s.Width > len(sign)+len(body) {
		return sign + strings.Repeat("0", s.Width-len(sign)-len(body)) + body, exact
	}
	return pad(sign+body, s.Width, s.Minus), exact
}

func isExact(digits string, a float64) bool {
	r, ok := new(big.Rat).SetString(digits)
	if !ok {
		return false
	}
	return r.Cmp(new(big.Rat).SetFloat64(a)) == 0
}

// styleE: "[-]d.ddde±dd, one digit (nonzero if the argument is nonzero) before
// the decimal-point character and the number of digits after it equal to the
// precision; if the precision is zero and the # flag is not specified, no
// decimal-point character appears.  The exponent always contains at least two
// digits, and only as many more digits as necessary."
func styleE(a float64, prec int, sharp bool) (string, bool) {
	t := strconv.FormatFloat(a, 'e', prec, 64) // d[.ddd]e±dd
	k := strings.IndexByte(t, 'e')
	mant, exp := t[:k], t[k+1:]
	esign, edig := exp[:1], strings.TrimLeft(exp[1:], "0")
	for len(edig) < 2 {
		edig = "0" + edig
	}
	if prec == 0 && sharp {
		mant += "."
	}
	return mant + "e" + esign + edig, isExact(t, a)
}

func expOfStyleE(a float64, prec int) int {
	t := strconv.FormatFloat(a, 'e', prec, 64)
	k := strings.IndexByte(t, 'e')
	x, _ := strconv.Atoi(t[k+1:])
	return x
}

// styleF: "[-]ddd.ddd, where the number of digits after the decimal-point
// character is equal to the precision specification ... if the precision is
// zero and the # flag is not specified, no decimal-point character appears.
// If a decimal-point character appears, at least one digit appears before it."
func styleF(a float64, prec int, sharp bool) (string, bool) {
	t := strconv.FormatFloat(a, 'f', prec, 64)
	ex := isExact(t, a)
	if prec == 0 && sharp {
		t += "."
	}
	return t, ex
}

func trimFraction(t string) string {
	if !strings.Contains(t, ".") {
		return t
	}
	t = strings.TrimRight(t, "0")
	return strings.TrimSuffix(t, ".")
}

// InfNaN reports whether out is one of the renderings C allows for an
// infinity or NaN under conv: "[-]inf or [-]infinity", "[-]nan or
// [-]nan(n-char-sequence)", upper case for the capital conversions; a '+' or
// ' ' flag supplies the sign of a positive value.  Padding is not judged.
func InfNaN(s Spec, x float64, out string) bool {
	t := strings.Trim(out, " ")
	upper := s.Conv >= 'A' && s.Conv <= 'Z'
	neg := math.Signbit(x)
	switch {
	case strings.HasPrefix(t, "-"):
		if !neg && !math.IsNaN(x) {
			return false
		}
		t = t[1:]
	case strings.HasPrefix(t, "+"):
		if neg && !math.IsNaN(x) || !s.Plus {
			return false
		}
		t = t[1:]
	default:
		if neg && !math.IsNaN(x) {
			return false
		}
		if s.Plus {
			return false
		}
	}
	want := []string{"inf", "infinity"}
	if math.IsNaN(x) {
		want = []string{"nan"}
	}
	for _, w := range want {
		if upper {
			w = strings.ToUpper(w)
		}
		if t == w || math.IsNaN(x) && strings.HasPrefix(t, w+"(") && strings.HasSuffix(t, ")") {
			return true
		}
	}
	return false
}
