// Package refstr is an independent reference for the parts of string.format
// whose output is fully determined by ISO C's fprintf rules (C11 §7.21.6.1),
// which the Lua 5.4 manual §6.4 (string.format) adopts: the integer
// conversions d i u o x X, the character conversion c and the string
// conversion s, with the flags "-+ #0", a field width and a precision.
//
// The padding / precision / sign / prefix logic is written here from the C
// standard's text; strconv is used only to obtain digit strings.  Nothing
// from golua (and no fmt verb logic) is involved.
//
// Lua passes integers as 64-bit ("long long") values: d and i print the
// signed value, u o x X print the value modulo 2^64.
package refstr

import (
	"strconv"
	"strings"
)

// Spec is one conversion specification.
type Spec struct {
	Minus, Plus, Space, Sharp, Zero bool
	Width                           int // -1 = none
	Prec                            int // -1 = none
	Conv                            byte
}

// String renders the specification in canonical flag order.
func (s Spec) String() string {
	var b strings.Builder
	b.WriteByte('%')
	if s.Minus {
		b.WriteByte('-')
	}
	if s.Plus {
		b.WriteByte('+')
	}
	if s.Space {
		b.WriteByte(' ')
	}
	if s.Sharp {
		b.WriteByte('#')
	}
	if s.Zero {
		b.WriteByte('0')
	}
	if s.Width >= 0 {
		b.WriteString(strconv.Itoa(s.Width))
	}
	if s.Prec >= 0 {
		b.WriteByte('.')
		b.WriteString(strconv.Itoa(s.Prec))
	}
	b.WriteByte(s.Conv)
	return b.String()
}

// Defined reports whether C defines the behaviour of this combination of
// flags, precision and conversion.  ("#": "For other conversions, the
// behavior is undefined"; "0": "For other conversions, the behavior is
// undefined"; a precision with c "the behavior is undefined".)
func (s Spec) Defined() bool {
	switch s.Conv {
	case 'd', 'i', 'u':
		return !s.Sharp
	case 'o', 'x', 'X':
		return true
	case 'c':
		return !s.Sharp && !s.Zero && s.Prec < 0
	case 's':
		return !s.Sharp && !s.Zero
	}
	return false
}

// IgnoredSignFlag reports that the specification carries a '+' or ' ' flag on
// a conversion that is not a signed conversion.  C gives these flags a
// meaning only for signed conversions, so they have no effect; PUC-Lua 5.4.4+
// rejects them.  Callers accept both.
func (s Spec) IgnoredSignFlag() bool {
	switch s.Conv {
	case 'd', 'i':
		return false
	}
	return s.Plus || s.Space
}

func pad(body string, width int, left bool) string {
	if width < 0 || len(body) >= width {
		return body
	}
	sp := strings.Repeat(" ", width-len(body))
	if left {
		return body + sp
	}
	return sp + body
}

// Int formats v under an integer conversion.
func Int(s Spec, v int64) string {
	var sign, prefix, digits string
	switch s.Conv {
	case 'd', 'i':
		u := uint64(v)
		if v < 0 {
			sign = "-"
			u = -u // magnitude, also right for the minimum integer
		} else if s.Plus {
			sign = "+"
		} else if s.Space {
			sign = " "
		}
		digits = strconv.FormatUint(u, 10)
	case 'u':
		digits = strconv.FormatUint(uint64(v), 10)
	case 'o':
		digits = strconv.FormatUint(uint64(v), 8)
	case 'x':
		digits = strconv.FormatUint(uint64(v), 16)
	case 'X':
		digits = strings.ToUpper(strconv.FormatUint(uint64(v), 16))
	}
	// "The result of converting a zero value with a precision of zero is no
	// characters."
	if v == 0 && s.Prec == 0 {
		digits = ""
	}
	// precision: "the minimum number of digits to appear"
	if s.Prec >= 0 && len(digits) < s.Prec {
		digits = strings.Repeat("0", s.Prec-len(digits)) + digits
	}
	if s.Sharp {
		switch s.Conv {
		case 'o':
			// "it increases the precision, if and only if necessary, to force
			// the first digit of the result to be a zero (if the value and
			// precision are both 0, a single 0 is printed)"
			if !strings.HasPrefix(digits, "0") {
				digits = "0" + digits
			}
		case 'x':
			if v != 0 { // "a nonzero result has 0x prefixed to it"
				prefix = "0x"
			}
		case 'X':
			if v != 0 {
				prefix = "0X"
			}
		}
	}
	body := sign + prefix + digits
	// "0": "leading zeros (following any indication of sign or base) are used
	// to pad to the field width rather than performing space padding ... If
	// the 0 and - flags both appear, the 0 flag is ignored. For d, i, o, u, x,
	// and X conversions, if a precision is specified, the 0 flag is ignored."
	if s.Zero && !s.Minus && s.Prec < 0 && s.Width > len(body) {
		return sign + prefix + strings.Repeat("0", s.Width-len(body)) + digits
	}
	return pad(body, s.Width, s.Minus)
}

// Char formats the c conversion: "the int argument is converted to an
// unsigned char, and the resulting character is written".
func Char(s Spec, v int64) string {
	return pad(string([]byte{byte(v)}), s.Width, s.Minus)
}

// Str formats the s conversion: "Characters from the array are written up to
// (but not including) the terminating null character. If the precision is
// specified, no more than that many bytes are written."  str must not
// contain a zero byte when modifiers are present (the Lua manual excludes it).
func Str(s Spec, str string) string {
	if s.Prec >= 0 && len(str) > s.Prec {
		str = str[:s.Prec]
	}
	return pad(str, s.Width, s.Minus)
}

// ---- hexadecimal float syntax (for checking %a / %A output)

// ParseHexFloat parses [-]0xh[.hhh]p[+-]d exactly for values that fit a
// float64 without rounding; ok=false otherwise.  expDigits returns the
// exponent digit string for format checks.
func ParseHexFloat(t string, upper bool) (val float64, neg bool, expDigits string, ok bool) {
	x, p := "0x", byte('p')
	if upper {
		x, p = "0X", 'P'
	}
	if strings.HasPrefix(t, "-") {
		neg = true
		t = t[1:]
	}
	if !strings.HasPrefix(t, x) {
		return
	}
	t = t[2:]
	k := strings.IndexByte(t, p)
	if k < 0 {
		return
	}
	mant, exp := t[:k], t[k+1:]
	if len(exp) < 2 || (exp[0] != '+' && exp[0] != '-') {
		return // C always writes the exponent sign
	}
	expDigits = exp[1:]
	e, err := strconv.Atoi(exp)
	if err != nil {
		return
	}
	var m uint64
	seenDot := false
	nd := 0
	for i := 0; i < len(mant); i++ {
		c := mant[i]
		if c == '.' {
			if seenDot {
				return
			}
			seenDot = true
			continue
		}
		var d uint64
		switch {
		case c >= '0' && c <= '9':
			d = uint64(c - '0')
		case !upper && c >= 'a' && c <= 'f':
			d = uint64(c-'a') + 10
		case upper && c >= 'A' && c <= 'F':
			d = uint64(c-'A') + 10
		default:
			return
		}
		if m >= 1<<52 {
			return // would not be exact
		}
		m = m*16 + d
		nd++
		if seenDot {
			e -= 4
		}
	}
	if nd == 0 || mant[0] == '.' || m > 1<<53 {
		return
	}
	val = float64(m)
	for ; e > 0; e-- {
		val *= 2
	}
	for ; e < 0; e++ {
		val /= 2
	}
	ok = true
	return
}

// FloatSimple is the C output of the float conversions with default precision
// for a few exactly representable values; written out by hand from the rules
// of %e (one digit before the point, six after, exponent of at least two
// digits), %f (six digits after the point) and %g (six significant digits,
// trailing zeros removed, %e style iff the exponent is < -4 or >= 6).
var FloatSimple = map[float64]map[byte]string{
	1.5:   {'e': "1.500000e+00", 'E': "1.500000E+00", 'f': "1.500000", 'F': "1.500000", 'g': "1.5", 'G': "1.5"},
	0.0:   {'e': "0.000000e+00", 'E': "0.000000E+00", 'f': "0.000000", 'F': "0.000000", 'g': "0", 'G': "0"},
	-2.25: {'e': "-2.250000e+00", 'E': "-2.250000E+00", 'f': "-2.250000", 'F': "-2.250000", 'g': "-2.25", 'G': "-2.25"},
	100.0: {'e': "1.000000e+02", 'E': "1.000000E+02", 'f': "100.000000", 'F': "100.000000", 'g': "100", 'G': "100"},
	1e10:  {'e': "1.000000e+10", 'E': "1.000000E+10", 'f': "10000000000.000000", 'F': "10000000000.000000", 'g': "1e+10", 'G': "1E+10"},
	0.5:   {'e': "5.000000e-01", 'E': "5.000000E-01", 'f': "0.500000", 'F': "0.500000", 'g': "0.5", 'G': "0.5"},
}
