// Package refctx is the reference model of golua's stack of execution
// contexts ("runtime contexts", quotas.md), written from the statement of
// property C07 and from quotas.md -- not from the implementation, and without
// importing golua.
//
// Quantities are unbounded integers (math/big); "unlimited" is an explicit
// value, never the number 0; nothing saturates and nothing wraps.
//
// Rules modelled (source in brackets):
//
//   - a new context's hard limit per resource is the smaller of what the
//     definition asks and what its parent has left (parent.hard - parent.used)
//     at the moment of creation [C07; quotas.md "its CPU and memory limits will
//     be the amount of unused CPU and memory in the current context", "Hard
//     limits cannot exceed their parent's hard limits"];
//   - its soft limit is the smallest of the definition's, the parent's soft
//     limit and its own hard limit [quotas.md "Soft limits cannot exceed hard
//     limits, and by default cannot be increased from the parent's soft
//     limits"];
//   - its flags are the parent's, plus the definition's, plus cpusafe/memsafe
//     when the definition sets a hard cpu/memory limit [C07; quotas.md example];
//   - requiring an amount a of a resource either leaves used+a < hard and
//     records it, or terminates the context (status killed, termination is
//     signalled to the caller; used unchanged, or set to kill-1 = "all that was
//     left is gone", both accepted) [quotas.md "The program is
//     required to terminate before the limit is reached"; C07 "used never
//     exceeds kill"]; this holds in every status: a context that was already
//     killed never gets more than its limit;
//   - a resource without hard or soft limit in a context is not counted there
//     (used stays 0) [quotas.md example: used.memory 0 with kill.memory nil];
//     because limits are inherited, a counted parent implies a counted child;
//   - releasing memory lowers used by exactly that amount [quotas.md
//     ReleaseMem];
//   - when a context ends its status becomes done unless it was killed (or
//     marked error), and its parent's used grows by exactly the child's used
//     [C07 "everything it consumed is charged to the parent"]; should that reach
//     the parent's hard limit the parent is killed;
//   - due <=> a soft limit is reached or a stop was requested [C07];
//   - killnow / hard stop on the running context terminates it at once; on a
//     context that is not running it takes effect when that context is resumed
//     [quotas.md killcontext].
//
// Where the sources leave a choice the model returns several acceptable
// outcomes (Step returns a list; the first is the primary one):
//
//   - a context that is not live, or that was created below a context that was
//     not live or had a hard stop pending, may be refused any further resource
//     (termination signalled) even when its budget would allow it;
//   - LinearRequire(f, a) charges a units of memory and a/f units of cpu; the
//     rounding of a/f is not documented, floor and ceiling are accepted;
//   - a used amount that no longer fits 64 bits (possible only where there is
//     no hard limit) must be reported as 2^64-1 (saturation), not wrapped;
//   - whether a stop requested on an ancestor, or a hard stop, makes a context
//     "due" is not decided by the sources: Due is then unconstrained (MayDue).
package refctx

import (
	"fmt"
	"math/big"
	"strings"
)

// Resources.
const (
	Cpu = iota
	Mem
	NRes
)

var ResName = [NRes]string{"cpu", "mem"}

// Flags: own definition, the harness maps golua's flags by name.
type Flags uint8

const (
	MemSafe Flags = 1 << iota
	CpuSafe
	IoSafe
	TimeSafe
)

func (f Flags) String() string {
	var parts []string
	for i, n := range []string{"memsafe", "cpusafe", "iosafe", "timesafe"} {
		if f&(1<<uint(i)) != 0 {
			parts = append(parts, n)
		}
	}
	if len(parts) == 0 {
		return "-"
	}
	return strings.Join(parts, "+")
}

type Status uint8

const (
	Live Status = iota
	Done
	Error
	Killed
)

func (s Status) String() string {
	switch s {
	case Live:
		return "live"
	case Done:
		return "done"
	case Error:
		return "error"
	case Killed:
		return "killed"
	}
	return "?"
}

// Lim is a limit: unlimited, or a finite non-negative integer (which may be 0:
// "nothing left").
type Lim struct {
	Inf bool
	N   *big.Int
}

var Unlimited = Lim{Inf: true}

// FromU64 decodes the API convention "0 means unlimited".
func FromU64(v uint64) Lim {
	if v == 0 {
		return Unlimited
	}
	return Lim{N: new(big.Int).SetUint64(v)}
}

func (l Lim) String() string {
	if l.Inf {
		return "inf"
	}
	return l.N.String()
}

// less reports a < b for limits.
func less(a, b Lim) bool {
	if a.Inf {
		return false
	}
	if b.Inf {
		return true
	}
	return a.N.Cmp(b.N) < 0
}

func minLim(a, b Lim) Lim {
	if less(b, a) {
		return b
	}
	return a
}

// Def is a context definition as given to PushContext (0 = unlimited).
type Def struct {
	Hard, Soft [NRes]uint64
	Flags      Flags
}

// Ctx is one context of the stack.
type Ctx struct {
	Hard, Soft [NRes]Lim
	Used       [NRes]*big.Int
	OwnMem     *big.Int // memory required minus released by this very context
	Flags      Flags
	Status     Status
	StopSoft   bool // a (soft) stop was requested on this context
	StopHard   bool // a hard stop / kill was requested on this context
	AncSoft    bool // an ancestor had a stop requested when this one was created
	AncHard    bool // an ancestor had a hard stop requested when this one was created
	AncDead    bool // an ancestor was not live when this one was created
}

func (c *Ctx) clone() *Ctx {
	d := *c
	for i := range d.Used {
		d.Used[i] = new(big.Int).Set(c.Used[i])
	}
	d.OwnMem = new(big.Int).Set(c.OwnMem)
	return &d
}

// Tracked: the resource is counted in this context.
func (c *Ctx) Tracked(res int) bool { return !c.Hard[res].Inf || !c.Soft[res].Inf }

// Tainted: the sources do not promise this context any further resources.
func (c *Ctx) Tainted() bool { return c.Status != Live || c.AncDead || c.AncHard || c.StopHard }

// MustDue: a soft limit is reached or a stop was requested on this context.
func (c *Ctx) MustDue() bool {
	if c.StopSoft {
		return true
	}
	for r := 0; r < NRes; r++ {
		if !c.Soft[r].Inf && c.Used[r].Cmp(c.Soft[r].N) >= 0 {
			return true
		}
	}
	return false
}

// MayDue: Due may be reported (see package comment).
func (c *Ctx) MayDue() bool {
	return c.MustDue() || c.AncSoft || c.AncHard || c.StopHard
}

func (c *Ctx) String() string {
	b := func(x bool, s string) string {
		if x {
			return s
		}
		return ""
	}
	return fmt.Sprintf("{kill=%s/%s stop=%s/%s used=%s/%s own=%s %s %s %s}",
		c.Hard[Cpu], c.Hard[Mem], c.Soft[Cpu], c.Soft[Mem], c.Used[Cpu], c.Used[Mem], c.OwnMem,
		c.Flags, c.Status,
		b(c.StopSoft, "s")+b(c.StopHard, "h")+b(c.AncSoft, "S")+b(c.AncHard, "H")+b(c.AncDead, "D"))
}

// Stack is the context stack, root first.
type Stack struct {
	C []*Ctx
}

func newCtx() *Ctx {
	c := &Ctx{OwnMem: new(big.Int)}
	for r := 0; r < NRes; r++ {
		c.Hard[r], c.Soft[r] = Unlimited, Unlimited
		c.Used[r] = new(big.Int)
	}
	return c
}

// NewStack is a fresh runtime: one unlimited live root context.
func NewStack() *Stack { return &Stack{C: []*Ctx{newCtx()}} }

func (s *Stack) Clone() *Stack {
	t := &Stack{C: make([]*Ctx, len(s.C))}
	for i, c := range s.C {
		t.C[i] = c.clone()
	}
	return t
}

func (s *Stack) Top() *Ctx { return s.C[len(s.C)-1] }

// Representable: every used amount fits the 64-bit interface.  Beyond that the
// interface can only show a saturated value; the search does not go on from
// such states.
func (s *Stack) Representable() bool {
	for _, c := range s.C {
		for r := 0; r < NRes; r++ {
			if !c.Used[r].IsUint64() {
				return false
			}
		}
	}
	return true
}

func (s *Stack) String() string {
	parts := make([]string, len(s.C))
	for i, c := range s.C {
		parts[i] = c.String()
	}
	return strings.Join(parts, " ")
}

type Kind uint8

const (
	Push Kind = iota
	Pop
	Require    // Res, Amt
	Release    // memory, Amt
	Linear     // Factor, Amt
	StopSoft   // on the running context
	StopHard   // on the running context
	Kill       // on the running context
	ParentSoft // stop requested on the parent of the running context
	ParentHard // hard stop requested on the parent of the running context
	MarkError  // the running context's call ended with an ordinary error (status error at pop)
)

type Op struct {
	Kind   Kind
	Res    int
	Amt    uint64
	Factor uint64
	Def    Def
}

// Outcome is one acceptable result of an operation.
type Outcome struct {
	Next      *Stack
	Signal    bool // the termination of the running context is signalled to the caller
	Popped    *Ctx // the context returned by Pop (nil: none)
	PoppedNil bool // Pop on the root: nothing to pop
}

// Enabled is the alphabet restriction (none is left for Release: see below).
func (s *Stack) Enabled(op Op) bool {
	switch op.Kind {
	case Release:
		// any amount: releasing more than the context has accounted reduces
		// its usage "if possible" (quotas.md), i.e. to zero - memory required
		// in an enclosing context may be released in a nested one (a coroutine
		// created outside and finishing inside)
		return true
	case ParentSoft, ParentHard:
		return len(s.C) > 1
	}
	return true
}

func kill(c *Ctx) {
	if c.Status == Live {
		c.Status = Killed
	}
}

// require is the core rule; it returns the acceptable outcomes.
func (s *Stack) require(res int, amt *big.Int) []Outcome {
	c := s.Top()
	killed := func() Outcome {
		n := s.Clone()
		kill(n.Top())
		return Outcome{Next: n, Signal: true}
	}
	if !c.Tracked(res) {
		// not counted here, and so in no ancestor either
		out := []Outcome{{Next: s.Clone()}}
		if c.Tainted() {
			out = append(out, killed())
		}
		return out
	}
	if c.Status == Live && c.StopHard {
		return []Outcome{killed()} // the pending kill takes effect now
	}
	nu := new(big.Int).Add(c.Used[res], amt)
	if !c.Hard[res].Inf && nu.Cmp(c.Hard[res].N) >= 0 {
		// Refused.  What the dying context reports as used is not decided by
		// the sources beyond "at least what it consumed, less than kill":
		// unchanged, or "all it had left is gone" (kill-1, the value the
		// quotas.md example shows: 999 of 1000) are both accepted.
		out := []Outcome{killed()}
		if c.Hard[res].N.Sign() > 0 {
			ex := killed()
			ex.Next.Top().Used[res] = new(big.Int).Sub(c.Hard[res].N, big.NewInt(1))
			if ex.Next.Top().Used[res].Cmp(c.Used[res]) >= 0 {
				out = append(out, ex)
			}
		}
		return out
	}
	n := s.Clone()
	n.Top().Used[res] = nu
	if res == Mem {
		n.Top().OwnMem.Add(n.Top().OwnMem, amt)
	}
	out := []Outcome{{Next: n}}
	if c.Tainted() {
		out = append(out, killed())
	}
	return out
}

// Step applies op and returns every acceptable outcome, the primary one first.
func (s *Stack) Step(op Op) []Outcome {
	switch op.Kind {
	case Push:
		p := s.Top()
		c := newCtx()
		for r := 0; r < NRes; r++ {
			rem := Unlimited
			if !p.Hard[r].Inf {
				d := new(big.Int).Sub(p.Hard[r].N, p.Used[r])
				if d.Sign() < 0 {
					d.SetInt64(0)
				}
				rem = Lim{N: d}
			}
			c.Hard[r] = minLim(rem, FromU64(op.Def.Hard[r]))
			c.Soft[r] = minLim(minLim(c.Hard[r], p.Soft[r]), FromU64(op.Def.Soft[r]))
		}
		c.Flags = p.Flags | op.Def.Flags
		if op.Def.Hard[Cpu] != 0 {
			c.Flags |= CpuSafe
		}
		if op.Def.Hard[Mem] != 0 {
			c.Flags |= MemSafe
		}
		c.AncSoft = p.StopSoft || p.AncSoft
		c.AncHard = p.StopHard || p.AncHard
		c.AncDead = p.Status != Live || p.AncDead
		n := s.Clone()
		n.C = append(n.C, c)
		return []Outcome{{Next: n}}

	case Pop:
		if len(s.C) == 1 {
			return []Outcome{{Next: s.Clone(), PoppedNil: true}}
		}
		n := s.Clone()
		c := n.Top()
		n.C = n.C[:len(n.C)-1]
		p := n.Top()
		ret := c.clone()
		if ret.Status == Live {
			ret.Status = Done
		}
		base := n.Clone() // popped, parent not charged yet
		reach := false
		for r := 0; r < NRes; r++ {
			if !p.Tracked(r) {
				continue
			}
			nu := new(big.Int).Add(p.Used[r], c.Used[r])
			if !p.Hard[r].Inf && nu.Cmp(p.Hard[r].N) >= 0 {
				reach = true
				continue
			}
			p.Used[r] = nu
		}
		wasLive := p.Status == Live
		if reach || (wasLive && p.StopHard) {
			// the parent is resumed only to be terminated
			var out []Outcome
			k := n.Clone()
			kill(k.Top())
			out = append(out, Outcome{Next: k, Signal: true, Popped: ret})
			if !reach {
				// pending kill: may also take effect at its next requirement
				out = append(out, Outcome{Next: n, Popped: ret})
			} else if !wasLive {
				out = append(out, Outcome{Next: k.Clone(), Popped: ret})
			}
			return out
		}
		out := []Outcome{{Next: n, Popped: ret}}
		if p.Tainted() {
			// charging a context that is promised nothing may terminate it:
			// after the charge, or by refusing it (wholly, or the memory part
			// after the cpu part was taken)
			k := n.Clone()
			kill(k.Top())
			out = append(out, Outcome{Next: k, Signal: true, Popped: ret})
			k = base.Clone()
			kill(k.Top())
			out = append(out, Outcome{Next: k, Signal: true, Popped: ret})
			k = base.Clone()
			k.Top().Used[Cpu] = new(big.Int).Set(n.Top().Used[Cpu])
			kill(k.Top())
			out = append(out, Outcome{Next: k, Signal: true, Popped: ret})
		}
		return out

	case Require:
		return s.require(op.Res, new(big.Int).SetUint64(op.Amt))

	case Release:
		n := s.Clone()
		c := n.Top()
		a := new(big.Int).SetUint64(op.Amt)
		if c.Tracked(Mem) {
			c.Used[Mem].Sub(c.Used[Mem], a)
			if c.Used[Mem].Sign() < 0 {
				c.Used[Mem].SetInt64(0)
			}
			c.OwnMem.Sub(c.OwnMem, a)
			if c.OwnMem.Sign() < 0 {
				c.OwnMem.SetInt64(0)
			}
		}
		return []Outcome{{Next: n}}

	case Linear:
		a := new(big.Int).SetUint64(op.Amt)
		f := new(big.Int).SetUint64(op.Factor)
		q, m := new(big.Int).QuoRem(a, f, new(big.Int))
		qs := []*big.Int{q}
		if m.Sign() != 0 {
			qs = append(qs, new(big.Int).Add(q, big.NewInt(1)))
		}
		var out []Outcome
		for _, o1 := range s.require(Mem, a) {
			if o1.Signal {
				out = append(out, o1)
				continue
			}
			for _, q := range qs {
				out = append(out, o1.Next.require(Cpu, q)...)
			}
		}
		return out

	case StopSoft:
		n := s.Clone()
		n.Top().StopSoft = true
		return []Outcome{{Next: n}}

	case StopHard, Kill:
		n := s.Clone()
		c := n.Top()
		if op.Kind == StopHard {
			c.StopHard = true
		}
		if c.Status == Live {
			c.Status = Killed
			return []Outcome{{Next: n, Signal: true}}
		}
		return []Outcome{{Next: n}}

	case ParentSoft:
		n := s.Clone()
		n.C[len(n.C)-2].StopSoft = true
		return []Outcome{{Next: n}}

	case ParentHard:
		// "On a context that is not currently running, the effect is to kill
		// it as soon at it is resumed": nothing is signalled in the running
		// context.  The parent may be shown as killed at once or only when
		// it is resumed.
		n := s.Clone()
		n.C[len(n.C)-2].StopHard = true
		k := n.Clone()
		kill(k.C[len(k.C)-2])
		return []Outcome{{Next: n}, {Next: k}}

	case MarkError:
		n := s.Clone()
		if n.Top().Status == Live {
			n.Top().Status = Error
		}
		return []Outcome{{Next: n}}
	}
	panic("refctx: unknown op")
}

// ---------------------------------------------------------------- observation

// CtxObs is what the RuntimeContext interface shows of one context
// (limits with the API convention 0 = unlimited).
type CtxObs struct {
	Hard, Soft, Used [NRes]uint64
	Flags            Flags
	Status           Status
	Due              bool
}

func u64s(v uint64) string {
	switch v {
	case 1 << 63:
		return "2^63"
	case 1<<64 - 1:
		return "2^64-1"
	}
	return fmt.Sprint(v)
}

func lims(v uint64) string {
	if v == 0 {
		return "inf"
	}
	return u64s(v)
}

func (c CtxObs) String() string {
	d := ""
	if c.Due {
		d = " due"
	}
	return fmt.Sprintf("{kill=%s/%s stop=%s/%s used=%s/%s %s %s%s}",
		lims(c.Hard[Cpu]), lims(c.Hard[Mem]), lims(c.Soft[Cpu]), lims(c.Soft[Mem]),
		u64s(c.Used[Cpu]), u64s(c.Used[Mem]), c.Flags, c.Status, d)
}

// Obs is what the harness saw after one operation.
type Obs struct {
	Stack     []CtxObs // root first
	Signal    bool     // the operation panicked with ContextTerminationError
	Popped    *CtxObs
	PoppedNil bool
}

func (o Obs) String() string {
	parts := make([]string, len(o.Stack))
	for i, c := range o.Stack {
		parts[i] = c.String()
	}
	s := strings.Join(parts, " ")
	if o.Signal {
		s += " !terminated"
	}
	if o.Popped != nil {
		s += " popped=" + o.Popped.String()
	}
	return s
}

func limEq(l Lim, v uint64) bool {
	if l.Inf {
		return v == 0
	}
	return v != 0 && l.N.IsUint64() && l.N.Uint64() == v
}

func matchCtx(c *Ctx, o CtxObs) string {
	if c.Status != o.Status {
		return "status"
	}
	for r := 0; r < NRes; r++ {
		if !limEq(c.Hard[r], o.Hard[r]) {
			return "kill." + ResName[r]
		}
	}
	for r := 0; r < NRes; r++ {
		if !limEq(c.Soft[r], o.Soft[r]) {
			return "stop." + ResName[r]
		}
	}
	if c.Flags != o.Flags {
		return "flags"
	}
	for r := 0; r < NRes; r++ {
		if !c.Used[r].IsUint64() {
			// More than the interface can express (only possible without a hard
			// limit): the best a 64-bit counter can do is to stay at its
			// maximum, which keeps every comparison with a limit right.
			if o.Used[r] != 1<<64-1 {
				return "used." + ResName[r]
			}
			continue
		}
		if c.Used[r].Uint64() != o.Used[r] {
			return "used." + ResName[r]
		}
	}
	if o.Due && !c.MayDue() || !o.Due && c.MustDue() {
		return "due"
	}
	return ""
}

// Match compares an acceptable outcome with the observation; "" = equal,
// otherwise the first differing clause, contexts named by distance from the
// top of the expected stack (top, top-1, ...).
func Match(m Outcome, o Obs) string {
	if m.Signal != o.Signal {
		if m.Signal {
			return "termination-missing"
		}
		return "termination-unexpected"
	}
	if len(m.Next.C) != len(o.Stack) {
		return "depth"
	}
	for i := len(m.Next.C) - 1; i >= 0; i-- {
		if cl := matchCtx(m.Next.C[i], o.Stack[i]); cl != "" {
			d := len(m.Next.C) - 1 - i
			if d == 0 {
				return "top." + cl
			}
			return fmt.Sprintf("top-%d.%s", d, cl)
		}
	}
	if m.Signal && o.Signal && o.Popped == nil && !o.PoppedNil {
		// The operation signalled termination by panicking: a Go call that
		// panics returns nothing, so the popped context cannot be observed.
		return ""
	}
	if m.PoppedNil != o.PoppedNil || (m.Popped == nil) != (o.Popped == nil) {
		return "popped"
	}
	if m.Popped != nil {
		if cl := matchCtx(m.Popped, *o.Popped); cl != "" {
			return "popped." + cl
		}
	}
	return ""
}

// Invariants checks the sentences of C07 directly on an observed stack,
// independently of any history; it returns the violated clauses.
func Invariants(st []CtxObs) []string {
	var out []string
	big64 := func(v uint64) *big.Int { return new(big.Int).SetUint64(v) }
	for i, c := range st {
		for r := 0; r < NRes; r++ {
			// used never exceeds kill (quotas.md: terminated before the limit is reached)
			if c.Hard[r] != 0 && c.Used[r] >= c.Hard[r] {
				out = append(out, "inv:used>=kill."+ResName[r])
			}
			// soft limits never exceed hard limits
			if c.Hard[r] != 0 && (c.Soft[r] == 0 || c.Soft[r] > c.Hard[r]) {
				out = append(out, "inv:stop>kill."+ResName[r])
			}
			if i > 0 {
				p := st[i-1]
				// never more hard budget than the parent has left
				if p.Hard[r] != 0 {
					left := new(big.Int).Sub(big64(p.Hard[r]), big64(p.Used[r]))
					if c.Hard[r] == 0 || big64(c.Hard[r]).Cmp(left) > 0 {
						out = append(out, "inv:kill>parent-left."+ResName[r])
					}
				}
			}
		}
		if i > 0 && st[i-1].Flags&^c.Flags != 0 {
			out = append(out, "inv:flags-dropped")
		}
	}
	return out
}
