// Package vsched is a cooperative scheduler shim.  It is mounted into golua by
// a build overlay as github.com/arnodel/golua/vsched; instrumented copies of
// golua files use vsched.Mutex, *vsched.Chan and vsched.Go instead of
// sync.Mutex, chan and go.  Exactly one managed goroutine runs at a time; at
// every synchronisation operation the running goroutine reaches a *point* and
// a Tape decides who continues.  The package also keeps vector clocks and
// reports conflicting accesses (Access) that are not ordered by happens-before.
//
// Written for go 1.17 (golua's language version): no generics.
package vsched

import (
	"fmt"
	"runtime"
	"sort"
	"strings"
	"sync"
)

// When no controlled run is in progress (s == nil) every primitive falls back
// to the real Go primitive it replaces, so that an overlay build also runs
// free (sequential harnesses, and the separate free-running -race pass).

// Tape decides, at each point, which enabled goroutine continues.  enabled is
// in canonical order: the running goroutine first if it is still enabled,
// then ascending ids.  The returned value is an index into enabled.
type Tape interface {
	Choose(enabled []int, runningEnabled bool, label string) int
}

// Report is what one controlled execution produced.
type Report struct {
	Points     int
	Deadlock   string   // non empty: description of the blocked goroutines
	Panics     []string // Go panics in managed goroutines (first line + origin)
	Races      []string // unordered conflicting accesses, canonical text
	Horizon    bool     // point budget exhausted (execution cut)
	ParkedEnd  int      // goroutines still parked when the body and all runnable work had finished
	Spawned    int      // goroutines started with Go
	Exited     int      // goroutines that ran to completion (before the abort phase)
	TapeError  string   // the tape returned an out of range choice (replay divergence)
	ParkedWhat []string // what the parked goroutines wait for
}

type abortSignal struct{}

type gstate int

const (
	gRunnable gstate = iota // may run (not at a blocking op)
	gWantLock               // at a Lock point / parked on a mutex
	gWantSend               // parked sender
	gWantRecv               // parked receiver
	gEnding                 // G0 after the body returned: never chosen
	gExited
)

type g struct {
	id    int
	wake  chan struct{}
	state gstate
	mu    *Mutex
	ch    *Chan
	val   interface{} // value being sent / received
	recvd bool        // a parked receiver/sender has been served
	ok    bool
	vc    []int
	label string
}

type sched struct {
	tape     Tape
	gs       []*g
	cur      *g
	rep      Report
	aborting bool
	maxPts   int
	locs     map[locKey]*locState
	races    map[string]struct{}
	clock    uint64
}

var s *sched

// Active reports whether a controlled execution is in progress.
func Active() bool { return s != nil && !s.aborting }

// SetClock / Clock: virtual time for code whose now() was redirected.
var clockNoSched uint64

func SetClock(v uint64) {
	if s != nil {
		s.clock = v
	} else {
		clockNoSched = v
	}
}
func Clock() uint64 {
	if s != nil {
		return s.clock
	}
	return clockNoSched
}

// Run executes body under the control of tape and returns the report.  Runs
// must not be nested or concurrent.
func Run(tape Tape, maxPoints int, body func()) Report {
	if s != nil {
		panic("vsched.Run: nested or concurrent run")
	}
	if maxPoints <= 0 {
		maxPoints = 100000
	}
	sc := &sched{tape: tape, maxPts: maxPoints, locs: map[locKey]*locState{}, races: map[string]struct{}{}}
	g0 := &g{id: 0, wake: make(chan struct{}, 1), vc: []int{1}}
	sc.gs = []*g{g0}
	sc.cur = g0
	s = sc
	func() {
		defer func() {
			if r := recover(); r != nil {
				if _, ok := r.(abortSignal); !ok && !sc.aborting {
					sc.rep.Panics = append(sc.rep.Panics, panicText(0, r))
				}
			}
		}()
		body()
	}()
	// Drain: let every goroutine that can still run do so.
	g0.state = gEnding
	if !sc.aborting {
		sc.reschedule(g0, "end-of-body")
	}
	// Now nothing is enabled (or we are aborting).  Count what is left parked.
	if !sc.aborting {
		for _, x := range sc.gs[1:] {
			if x.state != gExited {
				sc.rep.ParkedEnd++
				sc.rep.ParkedWhat = append(sc.rep.ParkedWhat, x.what())
			}
		}
	}
	sc.aborting = true
	for _, x := range sc.gs[1:] {
		if x.state != gExited {
			x.wake <- struct{}{}
			<-g0.wake
		}
	}
	for k := range sc.races {
		sc.rep.Races = append(sc.rep.Races, k)
	}
	sort.Strings(sc.rep.Races)
	s = nil
	return sc.rep
}

func (x *g) what() string {
	switch x.state {
	case gRunnable:
		return fmt.Sprintf("g%d runnable", x.id)
	case gWantLock:
		return fmt.Sprintf("g%d Lock(%s)", x.id, x.label)
	case gWantSend:
		return fmt.Sprintf("g%d Send(%s)", x.id, x.label)
	case gWantRecv:
		return fmt.Sprintf("g%d Recv(%s)", x.id, x.label)
	case gEnding:
		return fmt.Sprintf("g%d ended", x.id)
	}
	return fmt.Sprintf("g%d exited", x.id)
}

func panicText(id int, r interface{}) string {
	msg := fmt.Sprint(r)
	if k := strings.IndexByte(msg, '\n'); k >= 0 {
		msg = msg[:k]
	}
	// innermost golua frame below the panic
	pcs := make([]uintptr, 40)
	n := runtime.Callers(3, pcs)
	fr := runtime.CallersFrames(pcs[:n])
	origin := ""
	for {
		f, more := fr.Next()
		if strings.Contains(f.Function, "arnodel/golua/") && !strings.Contains(f.Function, "/vsched.") {
			fn := f.Function[strings.LastIndex(f.Function, "/")+1:]
			origin = fn
			break
		}
		if !more {
			break
		}
	}
	return fmt.Sprintf("g%d: %s @%s", id, msg, origin)
}

func (sc *sched) enabled(x *g) bool {
	switch x.state {
	case gRunnable:
		return true
	case gWantLock:
		return !x.mu.locked
	}
	return false
}

// reschedule is called by cur (which has recorded its own state) to pick the
// goroutine that continues.  It returns when cur is chosen again.  If cur is
// not enabled and nobody else is either, that is the end (G0 ending) or a
// deadlock.
func (sc *sched) reschedule(cur *g, label string) {
	if sc.aborting {
		return
	}
	var en []int
	curEn := sc.enabled(cur)
	if curEn {
		en = append(en, cur.id)
	}
	for _, x := range sc.gs {
		if x != cur && sc.enabled(x) {
			en = append(en, x.id)
		}
	}
	if len(en) == 0 {
		g0 := sc.gs[0]
		if g0.state == gEnding {
			if cur == g0 {
				return // normal end
			}
			sc.cur = g0
			g0.wake <- struct{}{}
			sc.park(cur)
			return
		}
		// deadlock: the body has not returned and nothing can run
		var parts []string
		for _, x := range sc.gs {
			if x.state != gExited {
				parts = append(parts, x.what())
			}
		}
		sc.rep.Deadlock = strings.Join(parts, "; ")
		sc.aborting = true
		if cur == g0 {
			panic(abortSignal{})
		}
		sc.cur = g0
		g0.wake <- struct{}{} // g0 is parked inside an op: it will panic abortSignal
		sc.park(cur)
		return
	}
	sc.rep.Points++
	if sc.rep.Points > sc.maxPts {
		sc.rep.Horizon = true
		sc.aborting = true
		g0 := sc.gs[0]
		if cur == g0 {
			panic(abortSignal{})
		}
		sc.cur = g0
		g0.wake <- struct{}{}
		sc.park(cur)
		return
	}
	k := 0
	if len(en) > 1 {
		k = sc.tape.Choose(en, curEn, label)
		if k < 0 || k >= len(en) {
			sc.rep.TapeError = fmt.Sprintf("choice %d out of range (%d enabled) at point %d %s", k, len(en), sc.rep.Points, label)
			k = 0
		}
	}
	next := sc.gs[en[k]]
	if next == cur {
		return
	}
	sc.cur = next
	next.wake <- struct{}{}
	sc.park(cur)
}

// park blocks the calling goroutine until it is woken.  If the run is being
// aborted when it wakes, it unwinds with abortSignal.
func (sc *sched) park(cur *g) {
	if cur.state == gExited {
		return
	}
	<-cur.wake
	if sc.aborting {
		if cur.id == 0 && cur.state == gEnding {
			return
		}
		panic(abortSignal{})
	}
}

func join(a, b []int) []int {
	if len(b) > len(a) {
		a = append(a, make([]int, len(b)-len(a))...)
	}
	for i, v := range b {
		if v > a[i] {
			a[i] = v
		}
	}
	return a
}

func (x *g) tick() {
	for len(x.vc) <= x.id {
		x.vc = append(x.vc, 0)
	}
	x.vc[x.id]++
}

func clone(a []int) []int { return append([]int(nil), a...) }

// ---------------------------------------------------------------- Go

// Go starts f as a managed goroutine.
func Go(f func()) {
	sc := s
	if sc == nil {
		go f()
		return
	}
	if sc.aborting {
		return
	}
	cur := sc.cur
	child := &g{id: len(sc.gs), wake: make(chan struct{}, 1), state: gRunnable}
	cur.tick()
	child.vc = clone(cur.vc)
	child.tick()
	sc.gs = append(sc.gs, child)
	sc.rep.Spawned++
	go func() {
		<-child.wake
		defer func() {
			r := recover()
			if r != nil {
				if _, ok := r.(abortSignal); !ok && !sc.aborting {
					sc.rep.Panics = append(sc.rep.Panics, panicText(child.id, r))
				}
			}
			wasAborting := sc.aborting
			child.state = gExited
			if wasAborting {
				g0 := sc.gs[0]
				g0.wake <- struct{}{}
				return
			}
			sc.rep.Exited++
			sc.reschedule(child, "exit")
		}()
		if sc.aborting {
			return
		}
		f()
	}()
	sc.reschedule(cur, "go")
}

// ---------------------------------------------------------------- Mutex

type Mutex struct {
	real   sync.Mutex
	locked bool
	owner  int
	vc     []int
}

func (m *Mutex) Lock() {
	sc := s
	if sc == nil {
		m.real.Lock()
		return
	}
	if sc.aborting {
		return
	}
	cur := sc.cur
	cur.state, cur.mu, cur.label = gWantLock, m, callerLabel()
	sc.reschedule(cur, "lock "+cur.label)
	// chosen: the mutex is free
	cur.state, cur.mu = gRunnable, nil
	m.locked, m.owner = true, cur.id
	cur.vc = join(cur.vc, m.vc)
}

func (m *Mutex) Unlock() {
	sc := s
	if sc == nil {
		m.real.Unlock()
		return
	}
	if sc.aborting {
		return
	}
	if !m.locked {
		panic("vsched.Mutex: unlock of unlocked mutex")
	}
	cur := sc.cur
	cur.tick()
	m.vc = clone(cur.vc)
	m.locked = false
	// somebody may be waiting for it: that is a point
	for _, x := range sc.gs {
		if x.state == gWantLock && x.mu == m {
			sc.reschedule(cur, "unlock")
			return
		}
	}
}

// ---------------------------------------------------------------- Chan (unbuffered)

type Chan struct {
	real    chan interface{}
	closed  bool
	closeVC []int
	sendq   []*g
	recvq   []*g
}

func NewChan() *Chan { return &Chan{real: make(chan interface{})} }

func (c *Chan) Send(v interface{}) {
	sc := s
	if sc == nil {
		c.real <- v
		return
	}
	if sc.aborting {
		return
	}
	cur := sc.cur
	lbl := callerLabel()
	sc.reschedule(cur, "send "+lbl) // point before the operation
	if c.closed {
		panic("send on closed channel")
	}
	if len(c.recvq) > 0 {
		r := c.recvq[0]
		c.recvq = c.recvq[1:]
		cur.tick()
		r.val, r.ok, r.recvd = v, true, true
		r.vc = join(r.vc, cur.vc)
		r.tick()
		cur.vc = join(cur.vc, r.vc) // unbuffered: the receive happens before the send completes
		r.state, r.ch = gRunnable, nil
		sc.reschedule(cur, "sent "+lbl) // who goes first after the hand-off
		return
	}
	cur.state, cur.ch, cur.val, cur.recvd, cur.label = gWantSend, c, v, false, lbl
	c.sendq = append(c.sendq, cur)
	sc.reschedule(cur, "send-park "+lbl)
	// woken by a receiver which already took the value
	cur.val = nil
}

func (c *Chan) Recv() interface{} {
	v, _ := c.Recv2()
	return v
}

func (c *Chan) Recv2() (interface{}, bool) {
	sc := s
	if sc == nil {
		v, ok := <-c.real
		return v, ok
	}
	if sc.aborting {
		panic(abortSignal{})
	}
	cur := sc.cur
	lbl := callerLabel()
	sc.reschedule(cur, "recv "+lbl)
	if len(c.sendq) > 0 {
		sd := c.sendq[0]
		c.sendq = c.sendq[1:]
		sd.tick()
		v := sd.val
		cur.vc = join(cur.vc, sd.vc)
		cur.tick()
		sd.vc = join(sd.vc, cur.vc)
		sd.state, sd.ch, sd.recvd = gRunnable, nil, true
		sc.reschedule(cur, "received "+lbl)
		return v, true
	}
	if c.closed {
		cur.vc = join(cur.vc, c.closeVC)
		return nil, false
	}
	cur.state, cur.ch, cur.recvd, cur.label = gWantRecv, c, false, lbl
	c.recvq = append(c.recvq, cur)
	sc.reschedule(cur, "recv-park "+lbl)
	v, ok := cur.val, cur.ok
	cur.val = nil
	return v, ok
}

func (c *Chan) Close() {
	sc := s
	if sc == nil {
		close(c.real)
		return
	}
	if sc.aborting {
		return
	}
	cur := sc.cur
	sc.reschedule(cur, "close "+callerLabel())
	if c.closed {
		panic("close of closed channel")
	}
	cur.tick()
	c.closed = true
	c.closeVC = clone(cur.vc)
	woke := false
	for _, r := range c.recvq {
		r.val, r.ok, r.recvd = nil, false, true
		r.vc = join(r.vc, cur.vc)
		r.state, r.ch = gRunnable, nil
		woke = true
	}
	c.recvq = nil
	if len(c.sendq) > 0 {
		panic("vsched: close of a channel with parked senders")
	}
	if woke {
		sc.reschedule(cur, "closed")
	}
}

func callerLabel() string {
	_, file, line, ok := runtime.Caller(2)
	if !ok {
		return "?"
	}
	if k := strings.LastIndexByte(file, '/'); k >= 0 {
		file = file[k+1:]
	}
	return fmt.Sprintf("%s:%d", file, line)
}

// ---------------------------------------------------------------- happens-before monitor

type locKey struct {
	obj  interface{}
	name string
}

type access struct {
	gid   int
	clock int
	site  string
}

type locState struct {
	write *access
	reads map[int]access
}

// Access records a read or write of the location (obj, name) by the running
// goroutine at the given site and reports a race if a conflicting earlier
// access is not ordered before it.  It is not a scheduling point.
func Access(obj interface{}, name string, write bool, site string) {
	sc := s
	if sc == nil || sc.aborting {
		return
	}
	cur := sc.cur
	cur.tick()
	k := locKey{obj, name}
	st := sc.locs[k]
	if st == nil {
		st = &locState{reads: map[int]access{}}
		sc.locs[k] = st
	}
	ordered := func(a access) bool {
		return a.gid == cur.id || (a.gid < len(cur.vc) && cur.vc[a.gid] >= a.clock)
	}
	if st.write != nil && !ordered(*st.write) {
		sc.race(name, *st.write, true, site, write)
	}
	me := access{cur.id, cur.vc[cur.id], site}
	if write {
		for _, r := range st.reads {
			if !ordered(r) {
				sc.race(name, r, false, site, true)
			}
		}
		st.write = &me
		st.reads = map[int]access{}
	} else {
		st.reads[cur.id] = me
	}
}

func (sc *sched) race(name string, prev access, prevWrite bool, site string, write bool) {
	a := fmt.Sprintf("%s@%s", rw(prevWrite), prev.site)
	b := fmt.Sprintf("%s@%s", rw(write), site)
	if a > b {
		a, b = b, a
	}
	sc.races[fmt.Sprintf("%s: %s || %s", name, a, b)] = struct{}{}
}

func rw(w bool) string {
	if w {
		return "write"
	}
	return "read"
}

// Point is an explicit scheduling point (used by harnesses).
func Point(label string) {
	sc := s
	if sc == nil || sc.aborting {
		return
	}
	sc.reschedule(sc.cur, label)
}

// CurrentG returns the id of the running managed goroutine (0 = the body).
func CurrentG() int {
	if s == nil {
		return 0
	}
	return s.cur.id
}
