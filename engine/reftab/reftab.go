// Package reftab is the reference model of the Lua 5.4 table library
// (manual §6.6) on an abstract table: a finite map from integer keys to
// non-nil values.  It imports nothing from golua.
//
// Every function returns a Res.  Outcomes the manual does not define are
// reported as such (OutOfDomain) instead of being guessed.
package reftab

import (
	"math"
	"math/big"
	"sort"
	"strconv"
	"strings"

	"verif/engine/lv"
)

// T is a table restricted to integer keys; an absent key is nil.
type T map[int64]lv.V

func (t T) Get(k int64) lv.V {
	if v, ok := t[k]; ok {
		return v
	}
	return lv.NilV
}

func (t T) Set(k int64, v lv.V) {
	if v.K == lv.Nil {
		delete(t, k)
		return
	}
	t[k] = v
}

func (t T) Clone() T {
	c := T{}
	for k, v := range t {
		c[k] = v
	}
	return c
}

// FromSeq builds the table {vs[0], vs[1], ...} (nil entries are holes).
func FromSeq(vs []lv.V) T {
	t := T{}
	for k, v := range vs {
		t.Set(int64(k+1), v)
	}
	return t
}

// Dump renders the contents canonically: keys ascending, "k=v" joined by ",".
func (t T) Dump() string {
	keys := make([]int64, 0, len(t))
	for k := range t {
		keys = append(keys, k)
	}
	sort.Slice(keys, func(a, b int) bool { return keys[a] < keys[b] })
	var sb strings.Builder
	for n, k := range keys {
		if n > 0 {
			sb.WriteByte(',')
		}
		sb.WriteString("i:" + strconv.FormatInt(k, 10) + "=" + t[k].Canon())
	}
	return sb.String()
}

// Border returns #t when it is determined by the manual (§3.4.7): "A border
// in a table t is any non-negative integer that satisfies (border == 0 or
// t[border] ~= nil) and (t[border + 1] == nil or border == math.maxinteger)".
// ok is false when t has more than one border (then #t may be any of them).
func (t T) Border() (n int64, ok bool) {
	cnt := 0
	if t.Get(1).K == lv.Nil {
		n, cnt = 0, 1
	}
	for k := range t {
		if k < 1 {
			continue
		}
		if k == math.MaxInt64 || t.Get(k+1).K == lv.Nil {
			n = k
			cnt++
		}
	}
	return n, cnt == 1
}

type Res struct {
	// OutOfDomain: the manual does not define the call (e.g. insert position
	// outside [1, #t+1]); an error or any result must be accepted.
	OutOfDomain bool
	// Infeasible: the call is defined but denotes more work/results than
	// Count; it cannot be run to completion.
	Infeasible bool
	Count      *big.Int
	// Err: the manual's definition cannot be carried out (e.g. concat of a
	// non-string element): an error must be raised.
	Err  bool
	Rets []lv.V
	// RetDest: the single result is the destination table itself (move).
	RetDest bool
}

// Insert is table.insert(list, [pos,] value): "Inserts element value at
// position pos in list, shifting up the elements list[pos], list[pos+1], ...,
// list[#list]. The default value for pos is #list+1".  The manual defines no
// behaviour for a pos outside [1, #list+1].
func Insert(t T, hasPos bool, pos int64, v lv.V) Res {
	n, ok := t.Border()
	if !ok {
		return Res{OutOfDomain: true}
	}
	if !hasPos {
		pos = n + 1
	}
	if pos < 1 || pos > n+1 {
		return Res{OutOfDomain: true}
	}
	for k := n; k >= pos; k-- {
		t.Set(k+1, t.Get(k))
	}
	t.Set(pos, v)
	return Res{}
}

// Remove is table.remove(list [, pos]): "Removes from list the element at
// position pos, returning the value of the removed element. When pos is an
// integer between 1 and #list, it shifts down the elements list[pos+1],
// list[pos+2], ..., list[#list] and erases element list[#list]; The index pos
// can also be 0 when #list is 0, or #list + 1. The default value for pos is
// #list".
func Remove(t T, hasPos bool, pos int64) Res {
	n, ok := t.Border()
	if !ok {
		return Res{OutOfDomain: true}
	}
	if !hasPos {
		pos = n
	}
	switch {
	case pos >= 1 && pos <= n:
		ret := t.Get(pos)
		for k := pos; k < n; k++ {
			t.Set(k, t.Get(k+1))
		}
		t.Set(n, lv.NilV)
		return Res{Rets: []lv.V{ret}}
	case pos == n+1 || (n == 0 && pos == 0):
		ret := t.Get(pos)
		t.Set(pos, lv.NilV)
		return Res{Rets: []lv.V{ret}}
	}
	return Res{OutOfDomain: true}
}

var maxInt = big.NewInt(math.MaxInt64)

// Move is table.move(a1, f, e, t [,a2]): "Moves elements from the table a1 to
// the table a2, performing the equivalent to the following multiple
// assignment: a2[t],... = a1[f],...,a1[e]. The default for a2 is a1. The
// destination range can overlap with the source range. The number of elements
// to be moved must fit in a Lua integer. Returns the destination table a2."
// In a multiple assignment all values are read before any is assigned
// (§3.3.3), hence the snapshot.  a2 may be the same map as a1.
func Move(a1 T, f, e, tpos int64, a2 T, limit int64) Res {
	if f > e {
		return Res{RetDest: true}
	}
	cnt := new(big.Int).Sub(big.NewInt(e), big.NewInt(f))
	last := new(big.Int).Add(big.NewInt(tpos), cnt) // index of the last destination
	cnt.Add(cnt, big.NewInt(1))
	if cnt.Cmp(maxInt) > 0 {
		return Res{OutOfDomain: true} // "must fit in a Lua integer"
	}
	if last.Cmp(maxInt) > 0 {
		return Res{OutOfDomain: true} // a2[t+k] would not be an integer key
	}
	if cnt.Cmp(big.NewInt(limit)) > 0 {
		return Res{Infeasible: true, Count: cnt}
	}
	n := cnt.Int64()
	snap := make([]lv.V, n)
	for k := int64(0); k < n; k++ {
		snap[k] = a1.Get(f + k)
	}
	for k := int64(0); k < n; k++ {
		a2.Set(tpos+k, snap[k])
	}
	return Res{RetDest: true}
}

// Concat is table.concat(list [, sep [, i [, j]]]): "Given a list where all
// elements are strings or numbers, returns the string list[i]..sep..list[i+1]
// ... sep..list[j]. The default value for sep is the empty string, the
// default for i is 1, and the default for j is #list. If i is greater than j,
// returns the empty string."  Only integer numbers are modelled (their string
// form is the decimal numeral).  An element that is not a string or number
// (including nil) cannot be concatenated: error.
func Concat(t T, sep string, hasI bool, i int64, hasJ bool, j int64) Res {
	if !hasI {
		i = 1
	}
	if !hasJ {
		n, ok := t.Border()
		if !ok {
			return Res{OutOfDomain: true}
		}
		j = n
	}
	if i > j {
		return Res{Rets: []lv.V{lv.S("")}}
	}
	out := ""
	for k := i; ; k++ {
		v := t.Get(k)
		switch v.K {
		case lv.Int:
			out += strconv.FormatInt(v.I, 10)
		case lv.Str:
			out += v.S
		default:
			// the table is finite, so any long range ends here
			return Res{Err: true}
		}
		if k == j {
			break
		}
		out += sep
	}
	return Res{Rets: []lv.V{lv.S(out)}}
}

// Unpack is table.unpack(list [, i [, j]]): "Returns the elements from the
// given list. This function is equivalent to  return list[i], list[i+1], ...,
// list[j]  By default, i is 1 and j is #list."
func Unpack(t T, hasI bool, i int64, hasJ bool, j int64, limit int64) Res {
	if !hasI {
		i = 1
	}
	if !hasJ {
		n, ok := t.Border()
		if !ok {
			return Res{OutOfDomain: true}
		}
		j = n
	}
	if i > j {
		return Res{}
	}
	cnt := new(big.Int).Sub(big.NewInt(j), big.NewInt(i))
	cnt.Add(cnt, big.NewInt(1))
	if cnt.Cmp(big.NewInt(limit)) > 0 {
		return Res{Infeasible: true, Count: cnt}
	}
	var rets []lv.V
	for k := i; ; k++ {
		rets = append(rets, t.Get(k))
		if k == j {
			break
		}
	}
	return Res{Rets: rets}
}

// Pack is table.pack(...): "Returns a new table with all arguments stored
// into keys 1, 2, etc. and with a field "n" with the total number of
// arguments."
func Pack(args []lv.V) (t T, n int64) {
	return FromSeq(args), int64(len(args))
}
