// Package reflex is the golua-independent reference for the front-end check
// (C12): the operator precedence table of the Lua 5.4 manual §3.4.8 with
// minimal/full parenthesisation printers, a reference lexer with the
// denotation of numerals and string literals (§3.1), and a predictive
// recogniser for the grammar of §9.  It imports nothing from golua.
package reflex

// Op is one row entry of the precedence table of §3.4.8.
//
//	or
//	and
//	<     >     <=    >=    ~=    ==
//	|
//	~
//	&
//	<<    >>
//	..
//	+     -
//	*     /     //    %
//	unary operators (not   #     -     ~)
//	^
//
// "The concatenation ('..') and exponentiation ('^') operators are right
// associative. All other binary operators are left associative."
type Op struct {
	Sym   string
	Level int // 1 (lowest, or) .. 12 (highest, ^)
	Unary bool
	Right bool // right associative
}

var BinOps = []*Op{
	{Sym: "or", Level: 1},
	{Sym: "and", Level: 2},
	{Sym: "<", Level: 3}, {Sym: ">", Level: 3}, {Sym: "<=", Level: 3}, {Sym: ">=", Level: 3}, {Sym: "~=", Level: 3}, {Sym: "==", Level: 3},
	{Sym: "|", Level: 4},
	{Sym: "~", Level: 5},
	{Sym: "&", Level: 6},
	{Sym: "<<", Level: 7}, {Sym: ">>", Level: 7},
	{Sym: "..", Level: 8, Right: true},
	{Sym: "+", Level: 9}, {Sym: "-", Level: 9},
	{Sym: "*", Level: 10}, {Sym: "/", Level: 10}, {Sym: "//", Level: 10}, {Sym: "%", Level: 10},
	{Sym: "^", Level: 12, Right: true},
}

var UnOps = []*Op{
	{Sym: "not", Level: 11, Unary: true},
	{Sym: "#", Level: 11, Unary: true},
	{Sym: "-", Level: 11, Unary: true},
	{Sym: "~", Level: 11, Unary: true},
}

const leafLevel = 13

// Node is an expression tree; Op == nil means leaf number Leaf (0 based,
// numbered left to right).
type Node struct {
	Op   *Op
	L, R *Node // unary: operand in R
	Leaf int
}

func (n *Node) level() int {
	if n.Op == nil {
		return leafLevel
	}
	return n.Op.Level
}

// CountTrees returns T[0..n]: T[k] = number of trees with exactly k operators.
func CountTrees(n int) []uint64 {
	t := make([]uint64, n+1)
	t[0] = 1
	for k := 1; k <= n; k++ {
		t[k] = uint64(len(UnOps)) * t[k-1]
		for i := 0; i < k; i++ {
			t[k] += uint64(len(BinOps)) * t[i] * t[k-1-i]
		}
	}
	return t
}

// Unrank returns tree number idx (0 based) among the trees with exactly k
// operators.  Order: unary roots first (by operator, then operand), then
// binary roots by operator, by size of the left operand, left, right.
func Unrank(k int, idx uint64) *Node {
	t := CountTrees(k)
	n := unrank(t, k, idx)
	c := 0
	number(n, &c)
	return n
}

func unrank(t []uint64, k int, idx uint64) *Node {
	if k == 0 {
		return &Node{}
	}
	u := uint64(len(UnOps)) * t[k-1]
	if idx < u {
		return &Node{Op: UnOps[idx/t[k-1]], R: unrank(t, k-1, idx%t[k-1])}
	}
	idx -= u
	per := uint64(0)
	for i := 0; i < k; i++ {
		per += t[i] * t[k-1-i]
	}
	op := BinOps[idx/per]
	idx %= per
	for i := 0; i < k; i++ {
		c := t[i] * t[k-1-i]
		if idx < c {
			return &Node{Op: op, L: unrank(t, i, idx/t[k-1-i]), R: unrank(t, k-1-i, idx%t[k-1-i])}
		}
		idx -= c
	}
	panic("unrank: index out of range")
}

func number(n *Node, c *int) {
	if n.Op == nil {
		n.Leaf = *c
		*c++
		return
	}
	if n.L != nil {
		number(n.L, c)
	}
	number(n.R, c)
}

// Leaves returns the number of leaves.
func (n *Node) Leaves() int {
	if n.Op == nil {
		return 1
	}
	k := n.R.Leaves()
	if n.L != nil {
		k += n.L.Leaves()
	}
	return k
}

// Subtrees returns all nodes in pre-order.
func (n *Node) Subtrees() []*Node {
	out := []*Node{n}
	if n.Op != nil {
		if n.L != nil {
			out = append(out, n.L.Subtrees()...)
		}
		out = append(out, n.R.Subtrees()...)
	}
	return out
}

// LeafTok is the placeholder token of leaf k in a token list.
func LeafTok(k int) string { return string(rune('A' + k)) }

// needParens decides from the precedence table whether child c must be
// parenthesised in the given position of parent p so that the text parses
// back to this tree.
func needParens(p, c *Node, right bool) bool {
	if c.Op == nil {
		return false
	}
	if p.Op.Unary {
		// operand of a unary operator: anything binding looser needs parentheses
		return c.level() < p.Op.Level
	}
	if c.Op.Unary && right {
		// A unary operator application as the right operand of a binary
		// operator is never ambiguous (the grammar has no other reading of
		// "x op - y"), including after '^' although '^' binds tighter.
		return false
	}
	if c.level() != p.Op.Level {
		return c.level() < p.Op.Level
	}
	// same level
	if right {
		return !p.Op.Right
	}
	return p.Op.Right
}

// Tokens prints the tree as a token list.  full: every operator application
// parenthesised; otherwise only the parentheses the precedence table
// requires.  extra, if non-nil, gets one redundant pair of parentheses.
func (n *Node) Tokens(full bool, extra *Node) []string {
	var out []string
	var rec func(n *Node, paren bool)
	rec = func(n *Node, paren bool) {
		if n == extra {
			out = append(out, "(")
			defer func() { out = append(out, ")") }()
		}
		if n.Op == nil {
			out = append(out, LeafTok(n.Leaf))
			return
		}
		if paren || full {
			out = append(out, "(")
			defer func() { out = append(out, ")") }()
		}
		if n.L != nil {
			rec(n.L, !full && needParens(n, n.L, false))
		}
		out = append(out, n.Op.Sym)
		rec(n.R, !full && needParens(n, n.R, true))
	}
	rec(n, false)
	return out
}

func isWord(s string) bool {
	c := s[0]
	return c >= 'a' && c <= 'z' || c >= 'A' && c <= 'Z' || c == '_' || c >= '0' && c <= '9' || c == '.' && len(s) > 1 && s[1] >= '0' && s[1] <= '9'
}

// Compact joins tokens with no white space except where two tokens would
// otherwise fuse into a different token sequence.
func Compact(toks []string) string {
	var b []byte
	for i, t := range toks {
		if i > 0 {
			p := toks[i-1]
			pl, tf := p[len(p)-1], t[0]
			switch {
			case isWord(p) && isWord(t), // names, keywords, numerals
				pl == '-' && tf == '-', // comment
				isWord(p) && tf == '.', // 1 .. 2 / a ..  (numeral followed by dot)
				pl == '.' && (tf == '.' || isWord(t) && tf >= '0' && tf <= '9'), // .. .5
				pl == '[' && (tf == '[' || tf == '='),                           // long bracket
				pl == '<' && (tf == '<' || tf == '='), pl == '>' && (tf == '>' || tf == '='),
				(pl == '=' || pl == '~') && tf == '=', pl == '/' && tf == '/', pl == ':' && tf == ':':
				b = append(b, ' ')
			}
		}
		b = append(b, t...)
	}
	return string(b)
}
