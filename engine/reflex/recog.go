package reflex

// Predictive recogniser for "The Complete Syntax of Lua" (manual §9) over
// token kinds.  It consumes a token only when that token can continue a
// valid chunk, so on failure the index of the current token is the index of
// the first token at which no valid chunk can continue.

// Result of Recognise.
type Result struct {
	ErrIdx int // -1: accepted; otherwise index of the offending token (len(toks) = eof)
	// In names the innermost construct being recognised when the error was
	// found (chunk, do, while, repeat, if, for, function, parlist, local,
	// exprstat, return, label, goto, table, args, paren, index).
	In string
	// Features whose static (non context-free) rules the recogniser does not
	// decide; when present in an accepted program a compile-time rejection is
	// not a disagreement.
	Goto, Label, Attrib, Break, Vararg bool
	// Precisely decided static rules (§3.3.4, §3.4.11).
	BreakOutsideLoop    bool
	VarargOutsideVararg bool
	BadAttrib           bool // attribute name other than const/close (§3.3.7)
	BadAttribIdx        int  // index of the first such attribute name, -1 if none
}

type syntaxErr struct{}

type rec struct {
	toks []Token
	pos  int
	res  Result
	ctx  []string
	loop []int  // loop depth per function
	varf []bool // vararg-ness per function
}

// Recognise decides whether toks is a chunk.
func Recognise(toks []Token) (r Result) {
	p := &rec{toks: toks, loop: []int{0}, varf: []bool{true}, ctx: []string{"chunk"}}
	p.res.ErrIdx = -1
	p.res.BadAttribIdx = -1
	defer func() {
		if x := recover(); x != nil {
			if _, ok := x.(syntaxErr); !ok {
				panic(x)
			}
			p.res.ErrIdx = p.pos
			r = p.res
		}
	}()
	p.block()
	p.expect("eof")
	return p.res
}

func (p *rec) kind() string {
	if p.pos >= len(p.toks) {
		return "eof"
	}
	return p.toks[p.pos].Kind
}

func (p *rec) kindAt(k int) string {
	if p.pos+k >= len(p.toks) {
		return "eof"
	}
	return p.toks[p.pos+k].Kind
}

func (p *rec) fail() {
	p.res.In = p.ctx[len(p.ctx)-1]
	panic(syntaxErr{})
}

func (p *rec) enter(name string) { p.ctx = append(p.ctx, name) }
func (p *rec) leave()            { p.ctx = p.ctx[:len(p.ctx)-1] }

func (p *rec) next() { p.pos++ }

func (p *rec) accept(k string) bool {
	if p.kind() == k {
		p.pos++
		return true
	}
	return false
}

func (p *rec) expect(k string) {
	if p.kind() != k {
		p.fail()
	}
	if k != "eof" {
		p.pos++
	}
}

func blockFollow(k string) bool {
	switch k {
	case "end", "else", "elseif", "until", "eof":
		return true
	}
	return false
}

// block ::= {stat} [retstat]
func (p *rec) block() {
	for {
		k := p.kind()
		if blockFollow(k) {
			return
		}
		if k == "return" {
			// retstat ::= return [explist] [';']
			p.enter("return")
			p.next()
			if !blockFollow(p.kind()) && p.kind() != ";" {
				p.explist()
			}
			p.accept(";")
			if !blockFollow(p.kind()) {
				p.fail()
			}
			p.leave()
			return
		}
		p.stat()
	}
}

func (p *rec) stat() {
	name := p.kind()
	switch name {
	case ";", "break":
		name = "chunk"
	case "::":
		name = "label"
	case "do", "while", "repeat", "if", "for", "function", "local", "goto":
	default:
		name = "exprstat"
	}
	if name != "chunk" {
		p.enter(name)
		defer p.leave()
	}
	switch p.kind() {
	case ";":
		p.next()
	case "::":
		p.next()
		p.expect("name")
		p.expect("::")
		p.res.Label = true
	case "break":
		p.next()
		p.res.Break = true
		if p.loop[len(p.loop)-1] == 0 {
			p.res.BreakOutsideLoop = true
		}
	case "goto":
		p.next()
		p.expect("name")
		p.res.Goto = true
	case "do":
		p.next()
		p.block()
		p.expect("end")
	case "while":
		p.next()
		p.exp()
		p.expect("do")
		p.loopBlock()
		p.expect("end")
	case "repeat":
		p.next()
		p.loop[len(p.loop)-1]++
		p.block()
		p.expect("until")
		p.exp()
		p.loop[len(p.loop)-1]--
	case "if":
		p.next()
		p.exp()
		p.expect("then")
		p.block()
		for p.kind() == "elseif" {
			p.next()
			p.exp()
			p.expect("then")
			p.block()
		}
		if p.accept("else") {
			p.block()
		}
		p.expect("end")
	case "for":
		p.next()
		p.expect("name")
		switch p.kind() {
		case "=":
			p.next()
			p.exp()
			p.expect(",")
			p.exp()
			if p.accept(",") {
				p.exp()
			}
		case ",", "in":
			for p.accept(",") {
				p.expect("name")
			}
			p.expect("in")
			p.explist()
		default:
			p.fail()
		}
		p.expect("do")
		p.loopBlock()
		p.expect("end")
	case "function":
		// function funcname funcbody ; funcname ::= Name {'.' Name} [':' Name]
		p.next()
		p.expect("name")
		for p.accept(".") {
			p.expect("name")
		}
		if p.accept(":") {
			p.expect("name")
		}
		p.funcbody()
	case "local":
		p.next()
		if p.accept("function") {
			p.expect("name")
			p.funcbody()
			return
		}
		// attnamelist ::= Name attrib {',' Name attrib} ; attrib ::= ['<' Name '>']
		for {
			p.expect("name")
			if p.accept("<") {
				if p.kind() == "name" {
					if t := p.toks[p.pos].Text; t != "const" && t != "close" {
						p.res.BadAttrib = true
						if p.res.BadAttribIdx < 0 {
							p.res.BadAttribIdx = p.pos
						}
					}
				}
				p.expect("name")
				p.expect(">")
				p.res.Attrib = true
			}
			if !p.accept(",") {
				break
			}
		}
		if p.accept("=") {
			p.explist()
		}
	default:
		// varlist '=' explist | functioncall
		call := p.suffixedexp()
		if call == isCall {
			return
		}
		if call != isVar {
			p.fail() // '(' exp ')' alone: only a suffix could have continued it
		}
		for p.accept(",") {
			if p.suffixedexp() != isVar {
				p.fail()
			}
		}
		p.expect("=")
		p.explist()
	}
}

func (p *rec) loopBlock() {
	p.loop[len(p.loop)-1]++
	p.block()
	p.loop[len(p.loop)-1]--
}

// funcbody ::= '(' [parlist] ')' block end ; parlist ::= namelist [',' '...'] | '...'
func (p *rec) funcbody() {
	p.enter("parlist")
	p.expect("(")
	vararg := false
	if p.kind() != ")" {
		for {
			if p.accept("...") {
				vararg = true
				break
			}
			p.expect("name")
			if !p.accept(",") {
				break
			}
		}
	}
	p.expect(")")
	p.leave()
	p.enter("function")
	p.loop = append(p.loop, 0)
	p.varf = append(p.varf, vararg)
	p.block()
	p.loop = p.loop[:len(p.loop)-1]
	p.varf = p.varf[:len(p.varf)-1]
	p.expect("end")
	p.leave()
}

const (
	isOther = iota // parenthesised expression
	isVar
	isCall
)

// prefixexp with all its suffixes:
// prefixexp ::= var | functioncall | '(' exp ')'
// var ::= Name | prefixexp '[' exp ']' | prefixexp '.' Name
// functioncall ::= prefixexp args | prefixexp ':' Name args
func (p *rec) suffixedexp() int {
	kind := isOther
	switch p.kind() {
	case "name":
		p.next()
		kind = isVar
	case "(":
		p.enter("paren")
		p.next()
		p.exp()
		p.expect(")")
		p.leave()
	default:
		p.fail()
	}
	for {
		switch p.kind() {
		case ".":
			p.next()
			p.expect("name")
			kind = isVar
		case "[":
			p.enter("index")
			p.next()
			p.exp()
			p.expect("]")
			p.leave()
			kind = isVar
		case ":":
			p.next()
			p.expect("name")
			if !p.args() {
				p.fail()
			}
			kind = isCall
		default:
			if !p.args() {
				return kind
			}
			kind = isCall
		}
	}
}

// args ::= '(' [explist] ')' | tableconstructor | LiteralString
func (p *rec) args() bool {
	switch p.kind() {
	case "(":
		p.enter("args")
		p.next()
		if p.kind() != ")" {
			p.explist()
		}
		p.expect(")")
		p.leave()
	case "{":
		p.table()
	case "string":
		p.next()
	default:
		return false
	}
	return true
}

func (p *rec) explist() {
	p.exp()
	for p.accept(",") {
		p.exp()
	}
}

func isBinop(k string) bool {
	switch k {
	case "+", "-", "*", "/", "//", "^", "%", "&", "~", "|", ">>", "<<", "..", "<", "<=", ">", ">=", "==", "~=", "and", "or":
		return true
	}
	return false
}

// exp ::= nil | false | true | Numeral | LiteralString | '...' | functiondef |
//
//	prefixexp | tableconstructor | exp binop exp | unop exp
func (p *rec) exp() {
	for {
		// unop* simpleexp
		for {
			k := p.kind()
			if k == "not" || k == "-" || k == "#" || k == "~" {
				p.next()
				continue
			}
			break
		}
		switch p.kind() {
		case "nil", "false", "true", "number", "string":
			p.next()
		case "...":
			p.next()
			p.res.Vararg = true
			if !p.varf[len(p.varf)-1] {
				p.res.VarargOutsideVararg = true
			}
		case "function":
			p.next()
			p.funcbody()
		case "{":
			p.table()
		default:
			p.suffixedexp()
		}
		if !isBinop(p.kind()) {
			return
		}
		p.next()
	}
}

// tableconstructor ::= '{' [fieldlist] '}' ; fieldlist ::= field {fieldsep field} [fieldsep]
// field ::= '[' exp ']' '=' exp | Name '=' exp | exp
func (p *rec) table() {
	p.enter("table")
	defer p.leave()
	p.expect("{")
	for p.kind() != "}" {
		switch {
		case p.kind() == "[":
			p.next()
			p.exp()
			p.expect("]")
			p.expect("=")
			p.exp()
		case p.kind() == "name" && p.kindAt(1) == "=":
			p.next()
			p.next()
			p.exp()
		default:
			p.exp()
		}
		if !p.accept(",") && !p.accept(";") {
			break
		}
	}
	p.expect("}")
}
