package reflex

import (
	"errors"
	"math"
	"math/big"
	"strconv"
	"strings"
)

// ---------------------------------------------------------------- numerals

// Num is the denotation of a numeral.
type Num struct {
	IsInt bool
	I     int64
	F     float64
	// Range: the mathematical value is outside the finite float64 range (or
	// the exponent is astronomically large); the manual does not say what
	// such a numeral denotes.
	Range bool
}

func isDec(c byte) bool { return c >= '0' && c <= '9' }
func isHex(c byte) bool {
	return isDec(c) || c >= 'a' && c <= 'f' || c >= 'A' && c <= 'F'
}
func isAlpha(c byte) bool { return c >= 'a' && c <= 'z' || c >= 'A' && c <= 'Z' || c == '_' }

// Numeral gives the denotation of the complete numeral text s (§3.1):
// "A numeric constant with a radix point or an exponent denotes a float;
// otherwise, if its value fits in an integer or it is a hexadecimal constant,
// it denotes an integer; otherwise (that is, a decimal integer numeral that
// overflows), it denotes a float. Hexadecimal numerals with neither a radix
// point nor an exponent always denote an integer value; if the value
// overflows, it wraps around to fit into a valid integer."
func Numeral(s string) (Num, bool) {
	hex := len(s) > 2 && s[0] == '0' && (s[1] == 'x' || s[1] == 'X')
	digit, expc := isDec, "eE"
	i := 0
	if hex {
		digit, expc, i = isHex, "pP", 2
	}
	start := i
	for i < len(s) && digit(s[i]) {
		i++
	}
	intPart := s[start:i]
	frac, hasDot := "", false
	if i < len(s) && s[i] == '.' {
		hasDot = true
		i++
		st := i
		for i < len(s) && digit(s[i]) {
			i++
		}
		frac = s[st:i]
	}
	if len(intPart)+len(frac) == 0 {
		return Num{}, false
	}
	hasExp, expNeg, expDigits := false, false, ""
	if i < len(s) && strings.IndexByte(expc, s[i]) >= 0 {
		hasExp = true
		i++
		if i < len(s) && (s[i] == '+' || s[i] == '-') {
			expNeg = s[i] == '-'
			i++
		}
		st := i
		for i < len(s) && isDec(s[i]) {
			i++
		}
		expDigits = s[st:i]
		if expDigits == "" {
			return Num{}, false
		}
	}
	if i != len(s) {
		return Num{}, false
	}
	if !hasDot && !hasExp {
		v := new(big.Int)
		if hex {
			v.SetString(intPart, 16)
			v.And(v, new(big.Int).SetUint64(math.MaxUint64)) // wrap modulo 2^64
			return Num{IsInt: true, I: int64(v.Uint64())}, true
		}
		v.SetString(intPart, 10)
		if v.IsInt64() {
			return Num{IsInt: true, I: v.Int64()}, true
		}
	}
	if !hex {
		f, err := strconv.ParseFloat(s, 64) // trusted for correctly rounded decimal conversion only
		if err != nil {
			if errors.Is(err, strconv.ErrRange) {
				return Num{F: f, Range: true}, true
			}
			return Num{}, false
		}
		return Num{F: f}, true
	}
	// hexadecimal float: mantissa * 2^(exp - 4*len(frac)), exactly, then rounded once
	m := new(big.Int)
	m.SetString(intPart+frac, 16)
	if m.Sign() == 0 {
		return Num{F: 0}, true
	}
	e := new(big.Int)
	if expDigits != "" {
		e.SetString(expDigits, 10)
		if expNeg {
			e.Neg(e)
		}
	}
	e.Sub(e, big.NewInt(int64(4*len(frac))))
	if !e.IsInt64() || e.Int64() > 1<<20 || e.Int64() < -(1<<20) {
		return Num{Range: true}, true
	}
	bf := new(big.Float).SetPrec(uint(m.BitLen()) + 8).SetInt(m)
	bf.SetMantExp(bf, int(e.Int64()))
	f, _ := bf.Float64()
	if math.IsInf(f, 0) {
		return Num{F: f, Range: true}, true
	}
	return Num{F: f}, true
}

// ---------------------------------------------------------------- strings

// eolLen returns the length (1 or 2) of the end-of-line sequence at s[i]
// (CR, LF, CRLF, LFCR; longest match), or 0.
func eolLen(s string, i int) int {
	if i >= len(s) || s[i] != '\n' && s[i] != '\r' {
		return 0
	}
	if i+1 < len(s) && (s[i+1] == '\n' || s[i+1] == '\r') && s[i+1] != s[i] {
		return 2
	}
	return 1
}

// CountEOL counts the end-of-line sequences in s.
func CountEOL(s string) int {
	n := 0
	for i := 0; i < len(s); {
		if k := eolLen(s, i); k > 0 {
			n++
			i += k
		} else {
			i++
		}
	}
	return n
}

func isSpace(c byte) bool {
	return c == ' ' || c == '\f' || c == '\n' || c == '\r' || c == '\t' || c == '\v'
}

// UTF8Ext encodes a code point < 2^31 in the original (up to 6 byte) UTF-8.
func UTF8Ext(c uint32) []byte {
	switch {
	case c < 0x80:
		return []byte{byte(c)}
	case c < 0x800:
		return []byte{0xC0 | byte(c>>6), 0x80 | byte(c&0x3F)}
	case c < 0x10000:
		return []byte{0xE0 | byte(c>>12), 0x80 | byte(c>>6&0x3F), 0x80 | byte(c&0x3F)}
	case c < 0x200000:
		return []byte{0xF0 | byte(c>>18), 0x80 | byte(c>>12&0x3F), 0x80 | byte(c>>6&0x3F), 0x80 | byte(c&0x3F)}
	case c < 0x4000000:
		return []byte{0xF8 | byte(c>>24), 0x80 | byte(c>>18&0x3F), 0x80 | byte(c>>12&0x3F), 0x80 | byte(c>>6&0x3F), 0x80 | byte(c&0x3F)}
	}
	return []byte{0xFC | byte(c>>30), 0x80 | byte(c>>24&0x3F), 0x80 | byte(c>>18&0x3F), 0x80 | byte(c>>12&0x3F), 0x80 | byte(c>>6&0x3F), 0x80 | byte(c&0x3F)}
}

// ShortString reads the short literal string starting at s[0] (a quote).
// It returns the denoted bytes and the length of the literal, or ok=false if
// the text is not a valid literal (§3.1).
func ShortString(s string) (val []byte, n int, ok bool) {
	q := s[0]
	i := 1
	for {
		if i >= len(s) {
			return nil, 0, false // unfinished
		}
		c := s[i]
		switch {
		case c == q:
			return val, i + 1, true
		case c == '\n' || c == '\r':
			return nil, 0, false // unescaped line break
		case c != '\\':
			val = append(val, c)
			i++
		default:
			i++
			if i >= len(s) {
				return nil, 0, false
			}
			e := s[i]
			switch {
			case e == 'a':
				val, i = append(val, 7), i+1
			case e == 'b':
				val, i = append(val, 8), i+1
			case e == 'f':
				val, i = append(val, 12), i+1
			case e == 'n':
				val, i = append(val, 10), i+1
			case e == 'r':
				val, i = append(val, 13), i+1
			case e == 't':
				val, i = append(val, 9), i+1
			case e == 'v':
				val, i = append(val, 11), i+1
			case e == '\\' || e == '"' || e == '\'':
				val, i = append(val, e), i+1
			case e == '\n' || e == '\r':
				// "A backslash followed by a line break results in a newline in the string."
				val = append(val, '\n')
				i += eolLen(s, i)
			case e == 'z':
				// "skips the following span of whitespace characters, including line breaks"
				i++
				for i < len(s) && isSpace(s[i]) {
					i++
				}
			case e == 'x':
				// "\xXX, where XX is a sequence of exactly two hexadecimal digits"
				if i+2 >= len(s) || !isHex(s[i+1]) || !isHex(s[i+2]) {
					return nil, 0, false
				}
				v, _ := strconv.ParseUint(s[i+1:i+3], 16, 8)
				val, i = append(val, byte(v)), i+3
			case isDec(e):
				// "\ddd, where ddd is a sequence of up to three decimal digits"
				v, k := 0, 0
				for k < 3 && i < len(s) && isDec(s[i]) {
					v = v*10 + int(s[i]-'0')
					i++
					k++
				}
				if v > 255 {
					return nil, 0, false
				}
				val = append(val, byte(v))
			case e == 'u':
				// "\u{XXX} (with mandatory enclosing braces) ... one or more hexadecimal digits ... any value less than 2^31"
				i++
				if i >= len(s) || s[i] != '{' {
					return nil, 0, false
				}
				i++
				st := i
				v := new(big.Int)
				for i < len(s) && isHex(s[i]) {
					i++
				}
				if i == st || i >= len(s) || s[i] != '}' {
					return nil, 0, false
				}
				v.SetString(s[st:i], 16)
				if v.Cmp(big.NewInt(1<<31)) >= 0 {
					return nil, 0, false
				}
				val, i = append(val, UTF8Ext(uint32(v.Uint64()))...), i+1
			default:
				return nil, 0, false // invalid escape sequence
			}
		}
	}
}

// LongOpen reports whether s starts with an opening long bracket and its level.
func LongOpen(s string) (level int, ok bool) {
	if len(s) == 0 || s[0] != '[' {
		return 0, false
	}
	i := 1
	for i < len(s) && s[i] == '=' {
		i++
	}
	if i < len(s) && s[i] == '[' {
		return i - 1, true
	}
	return 0, false
}

// LongString reads the long bracket literal at the start of s: denoted bytes
// and literal length.  "It ... runs until the first closing long bracket of
// the same level ... Any kind of end-of-line sequence (carriage return,
// newline, carriage return followed by newline, or newline followed by
// carriage return) is converted to a simple newline. When the opening long
// bracket is immediately followed by a newline, the newline is not included
// in the string."
func LongString(s string) (val []byte, n int, ok bool) {
	level, ok := LongOpen(s)
	if !ok {
		return nil, 0, false
	}
	closer := "]" + strings.Repeat("=", level) + "]"
	body := s[level+2:]
	k := strings.Index(body, closer)
	if k < 0 {
		return nil, 0, false
	}
	content := body[:k]
	i := eolLen(content, 0) // first line break skipped
	for i < len(content) {
		if e := eolLen(content, i); e > 0 {
			val = append(val, '\n')
			i += e
		} else {
			val = append(val, content[i])
			i++
		}
	}
	return val, level + 2 + k + len(closer), true
}

// ---------------------------------------------------------------- lexer

// Token kinds: "name", "number", "string", "eof"; for keywords and symbols the
// kind is the token text itself.
type Token struct {
	Kind string
	Text string
	Line int // line of the first character (1 based)
}

var keywords = map[string]bool{"and": true, "break": true, "do": true, "else": true, "elseif": true, "end": true,
	"false": true, "for": true, "function": true, "goto": true, "if": true, "in": true, "local": true, "nil": true,
	"not": true, "or": true, "repeat": true, "return": true, "then": true, "true": true, "until": true, "while": true}

var symbols = []string{"...", "<<", ">>", "//", "==", "~=", "<=", ">=", "::", "..",
	"+", "-", "*", "/", "%", "^", "#", "&", "~", "|", "<", ">", "=", "(", ")", "{", "}", "[", "]", ";", ":", ",", "."}

// Lex splits src into tokens (without the final eof).  ok=false on a lexical
// error.
func Lex(src string) (toks []Token, ok bool) {
	line := 1
	i := 0
	for i < len(src) {
		c := src[i]
		switch {
		case c == '\n' || c == '\r':
			i += eolLen(src, i)
			line++
		case isSpace(c):
			i++
		case c == '-' && i+1 < len(src) && src[i+1] == '-':
			i += 2
			if _, isLong := LongOpen(src[i:]); isLong {
				_, n, ok := LongString(src[i:])
				if !ok {
					return nil, false
				}
				line += CountEOL(src[i : i+n])
				i += n
			} else {
				for i < len(src) && src[i] != '\n' && src[i] != '\r' {
					i++
				}
			}
		case isAlpha(c):
			st := i
			for i < len(src) && (isAlpha(src[i]) || isDec(src[i])) {
				i++
			}
			w := src[st:i]
			if keywords[w] {
				toks = append(toks, Token{w, w, line})
			} else {
				toks = append(toks, Token{"name", w, line})
			}
		case isDec(c) || c == '.' && i+1 < len(src) && isDec(src[i+1]):
			st := i
			expc := "eE"
			if c == '0' && i+1 < len(src) && (src[i+1] == 'x' || src[i+1] == 'X') {
				expc = "pP"
				i += 2
			}
			for i < len(src) {
				if strings.IndexByte(expc, src[i]) >= 0 && i+1 < len(src) && (src[i+1] == '+' || src[i+1] == '-') {
					i += 2
				} else if isHex(src[i]) || isAlpha(src[i]) || src[i] == '.' {
					i++
				} else {
					break
				}
			}
			if _, ok := Numeral(src[st:i]); !ok {
				return nil, false
			}
			toks = append(toks, Token{"number", src[st:i], line})
		case c == '"' || c == '\'':
			_, n, ok := ShortString(src[i:])
			if !ok {
				return nil, false
			}
			toks = append(toks, Token{"string", src[i : i+n], line})
			line += CountEOL(src[i : i+n])
			i += n
		default:
			if _, isLong := LongOpen(src[i:]); isLong {
				_, n, ok := LongString(src[i:])
				if !ok {
					return nil, false
				}
				toks = append(toks, Token{"string", src[i : i+n], line})
				line += CountEOL(src[i : i+n])
				i += n
				continue
			}
			found := false
			for _, s := range symbols {
				if strings.HasPrefix(src[i:], s) {
					toks = append(toks, Token{s, s, line})
					i += len(s)
					found = true
					break
				}
			}
			if !found {
				return nil, false
			}
		}
	}
	return toks, true
}
